#!/usr/bin/env python3
"""Regenerates /verif/MANIFEST.json from the table below (run after adding a monitor)."""
import json, os, subprocess

HERE = os.path.dirname(os.path.abspath(__file__))

# id -> (technique, level text, level note, design section)
CHECKS = {
 "C01": ("runtime oracle: dual-number reference derivatives vs observed layer/network gradients over generated configurations",
         "Exploration. The real backward passes (public layer backward, hooked Network::backward, one SGD step of learn) are executed over a covering enumeration of (kernel,stride,padding,dilation) plus random architectures, and every gradient entry is compared with the exact forward-mode derivative of an independently written f64 reference, within a bound derived from the magnitude of the summed terms. Decides the property on the executions produced, not for all architectures.",
         "Trusts the reference model in harness/src/refmodel.rs (written from the definitions, cross-checked by C02 against forward), f64 arithmetic, and the first-order error bound carried by the dual-number type (DESIGN.md section 11). Kinks/ties within 1e-3 are regenerated.", "4/C01"),
 "C02": ("runtime oracle: f64 reference operators with running rounding-error bound vs observed forward outputs",
         "Exploration. Dense/convolution/deconvolution/max-pool forward and Network::predict are executed on enumerated and random configurations, flat and 3-D input, scaled magnitudes; outputs must lie within a running f32 error bound of the reference operator and be bit-identical across input representations.",
         "Trusts the gather-form reference operators and the error-bound scalar type E (refmodel.rs).", "4/C02"),
 "C03": ("history monitor: executable f64 model of the documented update equations vs observed parameter trajectories",
         "Exploration over optimizer histories: every step of every generated history is compared with the documented equations, across ranks, across interleaved slots, with finiteness monitored.",
         "Trusts my transcription of the documented equations (doc comments in optimizer.rs) and the history tolerance of DESIGN.md 2.4.", "4/C03"),
 "C04": ("trace checker over the hooked Forward/Update event log + twin reference trainer + equivalent-run monitors (one call vs one call per group; one-loop block vs inline layers)",
         "Exploration. Each learn() run is checked against the trace grammar (ordered groups, exactly-once, one update per group, stepnr = epoch) and against a twin trainer that recomputes the run from per-sample gradients; bit-exact for SGD.",
         "Trusts the event hooks (entry of Network::forward / Network::update) and rayon's join semantics for the happens-before between a group's Forward events and its Update.", "4/C04"),
 "C05": ("differential monitor across rayon pool sizes with injected stalls + Miri many-seeds schedule exploration",
         "Exploration of schedules: the same learn/validate/predict_batch call is executed in pools of 1..64 threads under injected delays and starvation, and under Miri's seeded scheduler; all outputs must be bit-identical and the observed schedules must actually differ (measured).",
         "Schedules are sampled, not enumerated; evidence reports the number of distinct thread assignments / start orders observed. Miri run with tree borrows and ignore-leaks (rayon/crossbeam internals).", "4/C05"),
 "C06": ("runtime oracle: documented formulas (f64, dual numbers) + metamorphic clamp/rank monitors on observed loss() results",
         "Exploration over prediction/target pairs incl. boundary grids for all seven objectives, both ranks, clamp intervals.",
         "RMSE gradient read as sign(p-a)/n (pinned by the unit test); magnitudes above 1e15 excluded (exact result overflows f32).", "4/C06"),
 "C07": ("exhaustive runtime sweep of all 2^32 bit patterns (thorough) against f64 oracles; stratified subset (quick)",
         "Exhaustive exploration for the five element-wise activations (thorough tier enumerates every finite f32), sampled exploration for soft-max and the rank/shape part.",
         "Trusts f64 libm as the oracle for exp/tanh and the stated tolerances.", "4/C07"),
 "C08": ("runtime oracle: closed-form shape formulas vs announced (Display) vs produced shapes; exhaustive flat sizes",
         "Exploration, exhaustive for flat sizes 1..1100 and (thorough) for the small shape lattice.",
         "Parses the `inputs -> outputs` line of Display black-box; standard PyTorch size formulas as oracle.", "4/C08"),
 "C09": ("hooked-state assertions on training flags per Forward event + differential twin without dropout",
         "Exploration over architectures x dropout placements; both the internal flags at every forward pass and the black-box metrics are monitored.",
         "Dropout masks are deterministic (constant seed) in this library, which makes the twin comparison exact.", "4/C09"),
 "C10": ("invariant check at quiescent points: bit-equality of unrolled copies after every learn() call",
         "Exploration over block bodies, loops, accumulations, optimizers, step counts.",
         "Overwrite coupling is documented unimplemented and counted as unsupported.", "4/C10"),
 "C11": ("runtime oracle: reference block (repeated, skip-combined) vs observed predictions",
         "Exploration; the skip-flag x accumulation x loops grid is covered completely, bodies random.",
         "Trusts the reference block semantics written from the property statement.", "4/C11"),
 "C12": ("runtime oracle: harness-side aggregation of predict/loss vs observed validate and predict_batch",
         "Exploration over data-set sizes around the parallel chunk size, objectives, tolerances, pools.",
         "Boundary cases (|t-p| == tol, arg-max ties) are not generated: their semantics are unspecified.", "4/C12"),
 "C13": ("offline checker over the histories returned by real learn() runs steered through rising/falling/plateau trajectories",
         "Exploration over validation-loss trajectories; the checker decides the early-stopping contract on each observed history and on the epoch count observed in the event log.",
         "No value is injected into the library; trajectories are steered through data and learning rate.", "4/C13"),
 "C14": ("runtime oracle on index-valued tensors; exhaustive over small shape pairs",
         "Exhaustive exploration over (c,h,w) in 1..6^3 sources towards all targets (quick) and 1..8^3 (thorough), plus sampled large tensors up to 131072 elements.",
         "none beyond the harness", "4/C14"),
 "C15": ("runtime oracle: per-element IEEE f32 recomputation; mismatch pairs must be refused",
         "Exploration over ranks, shapes (incl. dimensions around powers of two up to 4097), special values, a dyadic palette and sorted data; mismatch pairs incl. ragged nested lists.",
         "Any association of the three factors of the scaled Hadamard product is accepted.", "4/C15"),
 "C16": ("runtime oracle: reference network with skips (values, bookkeeping of accepted connections, dual-number gradients)",
         "Exploration over networks, index pairs, accumulations, chains / shared sources / self connections / max-pool links, connections added before and after first use.",
         "Chained connections: both readings of 'input fed to layer a' accepted.", "4/C16"),
 "C17": ("runtime oracle: reference loop semantics + metamorphic comparison with a physically unrolled library network",
         "Exploration over ranges, iteration counts, accumulations, several loops per network, loops next to blocks and skip connections.",
         "Trusts the reference loop semantics written from the property statement.", "4/C17"),
 "C18": ("exhaustive runtime sweep of all 2^31-2 generator states (thorough); black-box shuffle/permutation monitor over seed classes",
         "Exhaustive exploration of the generator state space in the thorough tier (every state: range panel + shuffle safety), sampled seeds and lengths for the black-box part.",
         "Harness built with overflow checks on (debug-profile semantics). Tensor::random's clock seed space is replayed through Generator.", "4/C18"),
}

BUILT = [l.strip() for l in open(os.path.join(HERE, "BUILT")).read().split() if l.strip()]

def main():
    commits = subprocess.run(["git", "-C", "/repo", "log", "--format=%h %s"], capture_output=True, text=True).stdout.splitlines()
    hook_commits = [c.split()[0] for c in commits if c.split(" ", 1)[1].startswith("verif hooks")]
    checks = []
    na = []
    for pid in sorted(CHECKS):
        tech, text, note, ref = CHECKS[pid]
        if pid in BUILT:
            checks.append({
                "property_id": pid,
                "quick_cmd": f"./check {pid} quick",
                "thorough_cmd": f"./check {pid} thorough",
                "evidence_file": f"/verif/evidence/{pid}.json",
                "replay_cmd_template": "./check --replay {path}",
                "engine": "nv",
                "level_claimed": {"category": "exploration", "text": text, "design_ref": f"DESIGN.md section {ref}"},
                "level_note": note,
                "technique": tech,
            })
        else:
            na.append({"property_id": pid, "reason": "runtime monitor designed (DESIGN.md section " + ref + ") but not built yet; not claimed until its check is registered"})
    m = {
        "version": 1,
        "setup_cmd": "./setup.sh",
        "hooks": {
            "guard": "cargo feature `verif` of the neurons crate (off by default)",
            "enable": "the harness crate depends on neurons = { path = \"/repo\", features = [\"verif\"] }; ./check rebuilds it from /repo's working tree on every invocation",
            "baseline_off_cmd": "cd /repo && cargo test --workspace --no-fail-fast --offline",
            "source_commits": hook_commits,
            "add_only": True,
        },
        "engines": [
            {"name": "nv", "path": "/verif/harness", "serves_properties": BUILT,
             "kind_free_text": "Rust harness: runs the real library under generated/enumerated workloads; monitors = reference-model oracles, trace checkers over the hooked event log, invariant checks at quiescent points; three-valued verdicts; built twice (profiles release and plain)"},
            {"name": "miri", "path": "/verif/miri", "serves_properties": ["C05"] if "C05" in BUILT else [],
             "kind_free_text": "cargo +nightly miri run with -Zmiri-many-seeds: seeded scheduler as interleaving explorer + UB/data-race interpreter"},
        ],
        "checks": checks,
        "not_applicable": na,
        "notes": "Technique family: runtime monitoring. Exit codes: 0 held on everything observed, 1 VIOLATION (replay file), 2 INCONCLUSIVE (never folded into the others). Known findings: /verif/known_findings.json. Every check has two legs: the given tier on the main build (opt-level 3, overflow checks and debug assertions on) and its quick tier on the cargo profile `plain` (both off; directories under /verif/plain, summary line PLAIN-PROFILE-LEG, merged into the evidence file as plain_profile_leg); the exit status is the worse of the two.",
    }
    with open(os.path.join(HERE, "MANIFEST.json"), "w") as f:
        json.dump(m, f, indent=1)
        f.write("\n")

main()
