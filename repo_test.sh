#!/bin/bash
# Runs the repository's own test suite with the verif guard OFF; exit 0 only if all tests pass.
cd /repo && out=$(cargo test --workspace --no-fail-fast --offline 2>&1); code=$?
echo "$out" | grep -E "^test result|^error|FAILED|failed" | head -8
exit $code
