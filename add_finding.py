#!/usr/bin/env python3
"""add_finding.py <property> <status> <commit|-> <signature> <what>  — appends to known_findings.json (development helper; never run by checks)."""
import json, sys
prop, status, commit, sig, what = sys.argv[1:6]
p='/verif/known_findings.json'; j=json.load(open(p))
e={"property":prop,"status":status,"signature":sig,"what":what}
if status=="fixed":
    e["commit"]=commit; e["line"]=f"fixed: property={prop} {commit} {what}"
j["findings"].append(e)
json.dump(j,open(p,'w'),indent=1); open(p,'a').write("\n")
