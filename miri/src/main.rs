//! C05, Miri leg: a tiny fixed-weight network is trained, validated and used for batched
//! prediction inside a 3-thread rayon pool. Under `cargo +nightly miri run -Zmiri-many-seeds`
//! every seed is a different, reproducible thread interleaving; the program prints the bit
//! patterns of everything it computed in one RESULT line, which must be identical for all
//! seeds. Miri additionally checks the executed code (rayon, crossbeam, std, the crate) for
//! undefined behaviour and data races.

use neurons::network::{Layer, Network};
use neurons::tensor::{Shape, Tensor};
use neurons::{activation, feedback, objective, optimizer};

fn fill(n: usize, salt: u32) -> Vec<f32> {
    // fixed, repetition-free values in [-0.8, 0.8]
    (0..n).map(|i| (((i as u32).wrapping_mul(2654435761u32).wrapping_add(salt.wrapping_mul(40503))) % 1601) as f32 / 1000.0 - 0.8).collect()
}

fn main() {
    let args: Vec<String> = std::env::args().collect();
    let variant: u32 = args.get(1).and_then(|s| s.parse().ok()).unwrap_or(0);
    let mut net = Network::new(Shape::Triple(1, 2, 2));
    net.convolution(1, (2, 2), (1, 1), (1, 1), (1, 1), activation::Activation::Tanh, None);
    net.feedback(
        vec![feedback::Layer::Convolution(1, activation::Activation::Sigmoid, (1, 1), (1, 1), (0, 0), (1, 1), None)],
        2,
        false,
        false,
        feedback::Accumulation::Mean,
    );
    net.maxpool((2, 2), (1, 1));
    net.dense(4, activation::Activation::Tanh, true, if variant % 2 == 1 { Some(0.5) } else { None });
    net.dense(2, activation::Activation::Linear, true, None);
    // two connections sharing their source (the order in which their gradients are added must
    // not depend on the hash state of the run)
    net.connect(3, 3);
    net.connect(3, 4);
    // fixed weights
    let mut salt = 1 + variant;
    for layer in net.layers.iter_mut() {
        salt += 1;
        match layer {
            Layer::Dense(d) => {
                let (o, i) = match d.verif_weights().shape {
                    Shape::Double(o, i) => (o, i),
                    _ => unreachable!(),
                };
                let w = fill(o * i, salt);
                d.verif_set_weights(Tensor::double((0..o).map(|r| w[r * i..(r + 1) * i].to_vec()).collect()));
                d.verif_set_bias(Some(Tensor::single(fill(o, salt + 100))));
            }
            Layer::Convolution(c) => {
                let k = fill(4, salt);
                c.verif_set_kernels(vec![Tensor::triple(vec![vec![vec![k[0], k[1]], vec![k[2], k[3]]]])]);
            }
            Layer::Feedback(b) => {
                for inner in b.layers.iter_mut() {
                    if let Layer::Convolution(c) = inner {
                        c.verif_set_kernels(vec![Tensor::triple(vec![vec![vec![0.7]]])]);
                    }
                }
            }
            _ => {}
        }
    }
    net.set_objective(objective::Objective::MSE, None);
    net.set_optimizer(if variant % 3 == 0 { optimizer::SGD::create(0.1, None) } else { optimizer::Adam::create(0.01, 0.9, 0.999, 1e-8, None) });

    let n_train = 4;
    let xs: Vec<Tensor> = (0..n_train).map(|s| Tensor::triple(vec![fill(4, 50 + s as u32).chunks(2).map(|r| r.to_vec()).collect()])).collect();
    let ts: Vec<Tensor> = (0..n_train).map(|s| Tensor::single(fill(2, 80 + s as u32))).collect();
    let vx: Vec<Tensor> = (0..2).map(|s| Tensor::triple(vec![fill(4, 150 + s as u32).chunks(2).map(|r| r.to_vec()).collect()])).collect();
    let vt: Vec<Tensor> = (0..2).map(|s| Tensor::single(fill(2, 180 + s as u32))).collect();
    let xr: Vec<&Tensor> = xs.iter().collect();
    let tr: Vec<&Tensor> = ts.iter().collect();
    let vxr: Vec<&Tensor> = vx.iter().collect();
    let vtr: Vec<&Tensor> = vt.iter().collect();

    let pool = rayon::ThreadPoolBuilder::new().num_threads(3).build().unwrap();
    let mut bits: Vec<u32> = Vec::new();
    pool.install(|| {
        let (tl, vl, va) = net.learn(&xr, &tr, Some((&vxr, &vtr, 100)), 2, 1, None);
        for v in tl.iter().chain(vl.iter()).chain(va.iter()) {
            bits.push(v.to_bits());
        }
        let (l, a) = net.validate(&vxr, &vtr, 0.1);
        bits.push(l.to_bits());
        bits.push(a.to_bits());
        for p in net.predict_batch(&xr) {
            for v in p.get_flat() {
                bits.push(v.to_bits());
            }
        }
    });
    for layer in net.layers.iter() {
        if let Layer::Dense(d) = layer {
            if let neurons::tensor::Data::Double(w) = &d.verif_weights().data {
                for r in w {
                    for v in r {
                        bits.push(v.to_bits());
                    }
                }
            }
        }
    }
    let line: Vec<String> = bits.iter().map(|b| format!("{:08x}", b)).collect();
    println!("RESULT variant={} {}", variant, line.join(""));
}
