#!/bin/bash
# Offline build of the harness (MANIFEST.setup_cmd). Everything comes from files on disk.
set -e
cd "$(dirname "$0")"
export CARGO_NET_OFFLINE=true
mkdir -p logs evidence replays
cp /repo/Cargo.lock harness/Cargo.lock
( cd harness && cargo build --release --offline --target-dir "$(pwd)/../target" && cargo build --profile plain --offline --target-dir "$(pwd)/../target" )
# warm the Miri build of the C05 leg (dependencies are interpreted, not compiled, but the
# sysroot and the crate metadata are prepared once here instead of inside the first check)
cp /repo/Cargo.lock miri/Cargo.lock
( cd miri && MIRIFLAGS="-Zmiri-disable-isolation -Zmiri-tree-borrows -Zmiri-ignore-leaks -Zmiri-deterministic-floats" \
    cargo +nightly miri run --offline --target-dir "$(pwd)/../target/miri" -- 0 > ../logs/setup.miri.log 2>&1 ) || echo "warning: Miri warm-up failed (see logs/setup.miri.log); C05 will report it as inconclusive"
echo "setup ok"
