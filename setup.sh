#!/bin/bash
# Offline build of the harness (MANIFEST.setup_cmd). Everything comes from files on disk.
set -e
cd "$(dirname "$0")"
export CARGO_NET_OFFLINE=true
mkdir -p logs evidence replays
cp /repo/Cargo.lock harness/Cargo.lock
( cd harness && cargo build --release --offline --target-dir "$(pwd)/../target" )
echo "setup ok"
