#!/usr/bin/env python3
import sys,os,re,glob
d=os.path.join(os.path.dirname(os.path.abspath(__file__)),'src/monitors')
ids=sorted(os.path.basename(f)[:-3] for f in glob.glob(d+'/c[0-9][0-9].rs'))
open(d+'/mod.rs','w').write('use crate::core::Monitor;\n\n'+''.join(f'pub mod {i};\n' for i in ids)+'\npub fn get(id: &str) -> Option<Box<dyn Monitor>> {\n    match id {\n'+''.join(f'        "{i.upper()}" => Some(Box::new({i}::{i.upper()})),\n' for i in ids)+'        _ => None,\n    }\n}\n')
print(ids)
