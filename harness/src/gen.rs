//! Seeded generators and covering enumerators for layer and network configurations.

use crate::cfg::*;
use crate::rng::Rng;

/// The 108 per-axis geometry tuples (kernel 1..3, stride 1..3, padding 0..3, dilation 1..3).
pub fn axis_combo(i: usize) -> (usize, usize, usize, usize) {
    let i = i % 108;
    (1 + i % 3, 1 + (i / 3) % 3, (i / 9) % 4, 1 + (i / 36) % 3)
}

pub fn pick_act(rng: &mut Rng) -> Act {
    *rng.pick(&ELEMENTWISE)
}

/// Smallest input extent for which the geometry is valid, per layer kind.
fn min_extent(kind: &str, k: usize, s: usize, p: usize, d: usize) -> usize {
    let _ = s;
    match kind {
        "conv" => {
            let eff = d * (k - 1) + 1;
            if eff > 2 * p {
                eff - 2 * p
            } else {
                1
            }
        }
        "deconv" => {
            // (i-1)s + k - 2p >= 1
            let mut i = 1;
            while (i - 1) * s + k < 2 * p + 1 {
                i += 1;
            }
            i
        }
        _ => k,
    }
}

/// Case `idx` of the covering enumeration over single spatial layers: the per-axis geometry
/// tuples are walked so that every (k,s,p,d) tuple of each axis appears, the remaining
/// parameters are random.
pub fn spatial_layer_case(rng: &mut Rng, idx: u64, kind: &str, max_extent: usize, act: Act) -> (LCfg, Sh) {
    let i = idx as usize;
    let (k0, s0, p0, d0) = axis_combo(i);
    let (k1, s1, p1, d1) = axis_combo(i * 37 + i / 108 + 5);
    let (p0, p1, d0, d1) = match kind {
        "conv" => (p0, p1, d0, d1),
        "deconv" => (p0, p1, 1, 1),
        _ => (0, 0, 1, 1),
    };
    let c = rng.range(1, 3);
    let filters = rng.range(1, 3);
    let lo_h = min_extent(kind, k0, s0, p0, d0);
    let lo_w = min_extent(kind, k1, s1, p1, d1);
    let h = rng.range(lo_h, lo_h.max(max_extent));
    let w = rng.range(lo_w, lo_w.max(max_extent));
    let l = match kind {
        "conv" => LCfg::Conv {
            filters,
            kernel: (k0, k1),
            stride: (s0, s1),
            padding: (p0, p1),
            dilation: (d0, d1),
            act,
            dropout: None,
        },
        "deconv" => LCfg::Deconv {
            filters,
            kernel: (k0, k1),
            stride: (s0, s1),
            padding: (p0, p1),
            act,
            dropout: None,
        },
        _ => LCfg::Pool { kernel: (k0, k1), stride: (s0, s1) },
    };
    (l, Sh::Sp(c, h, w))
}

#[derive(Clone)]
pub struct NetOpts {
    pub min_depth: usize,
    pub max_depth: usize,
    pub kinds: Vec<&'static str>,
    pub acts: Vec<Act>,
    pub max_extent: usize,
    pub max_count: usize,
    pub end_dense: Option<Act>,
    pub allow_flat_to_spatial: bool,
    pub spatial_input: Option<bool>,
    pub feedback: bool,
}

impl NetOpts {
    pub fn standard() -> NetOpts {
        NetOpts {
            min_depth: 1,
            max_depth: 5,
            kinds: vec!["dense", "conv", "deconv", "pool"],
            acts: ELEMENTWISE.to_vec(),
            max_extent: 7,
            max_count: 150,
            end_dense: None,
            allow_flat_to_spatial: true,
            spatial_input: None,
            feedback: false,
        }
    }
}

fn random_spatial(rng: &mut Rng, kind: &str, cur: (usize, usize, usize), o: &NetOpts) -> Option<LCfg> {
    for _ in 0..30 {
        let act = *rng.pick(&o.acts);
        let g = |rng: &mut Rng| (rng.range(1, 3), rng.range(1, 2), rng.range(0, 2), rng.range(1, 2));
        let (k0, s0, p0, d0) = g(rng);
        let (k1, s1, p1, d1) = g(rng);
        let filters = rng.range(1, 3);
        let l = match kind {
            "conv" => LCfg::Conv {
                filters,
                kernel: (k0, k1),
                stride: (s0, s1),
                padding: (p0, p1),
                dilation: (d0, d1),
                act,
                dropout: None,
            },
            "deconv" => LCfg::Deconv {
                filters,
                kernel: (k0, k1),
                stride: (s0, s1),
                padding: (p0.min(1), p1.min(1)),
                act,
                dropout: None,
            },
            _ => LCfg::Pool { kernel: (k0, k1), stride: (s0, s1) },
        };
        if let Ok(Sh::Sp(c, h, w)) = out_shape(&l, Sh::Sp(cur.0, cur.1, cur.2)) {
            if c * h * w <= o.max_count && h <= 2 * o.max_extent && w <= 2 * o.max_extent {
                return Some(l);
            }
        }
    }
    None
}

/// A shape-preserving body for a feedback block / loop range on the given shape.
pub fn preserving_body(rng: &mut Rng, cur: Sh, len: usize, acts: &[Act], with_pool: bool) -> Vec<LCfg> {
    let mut body = Vec::new();
    match cur {
        Sh::Flat(n) => {
            // the body as a whole preserves the width; in every third body the inner widths differ
            let vary = len >= 2 && rng.range(0, 2) == 0;
            for i in 0..len {
                body.push(LCfg::Dense {
                    n: if vary && i + 1 < len { rng.range(1, 6) } else { n },
                    act: *rng.pick(acts),
                    bias: rng.bool(),
                    dropout: None,
                });
            }
        }
        Sh::Sp(c0, h, w) => {
            // "same" convolutions (odd kernel, padding = dilation*(k-1)/2), 1x1 deconvolutions, and
            // deconv-then-pool / padded-conv-then-pool pairs that restore the extent. The body as
            // a whole preserves the channel count; in every third body the inner layers have other
            // filter counts (1 -> 3 -> 1: more filters than channels and the reverse).
            let vary = len >= 2 && rng.range(0, 2) == 0;
            let mut remaining = len;
            while remaining > 0 {
                let c = if vary && remaining > 1 { rng.range(1, 4) } else { c0 };
                let max_choice = if with_pool && remaining >= 2 { 2 } else { 1 };
                match rng.range(0, max_choice) {
                    0 => {
                        // 'same' convolution; the two kernel extents are chosen independently
                        // (1x3, 3x1 kernels as well as square ones)
                        let (k0, k1) = (*rng.pick(&[1usize, 3]), *rng.pick(&[1usize, 3]));
                        let d0 = if k0 == 3 && h >= 3 { rng.range(1, 2) } else { 1 };
                        let d1 = if k1 == 3 && w >= 3 { rng.range(1, 2) } else { 1 };
                        body.push(LCfg::Conv {
                            filters: c,
                            kernel: (k0, k1),
                            stride: (1, 1),
                            padding: (d0 * (k0 - 1) / 2, d1 * (k1 - 1) / 2),
                            dilation: (d0, d1),
                            act: *rng.pick(acts),
                            dropout: None,
                        });
                        remaining -= 1;
                    }
                    1 => {
                        // deconvolution k=3,s=1,p=1 (or 1) per axis keeps the extent
                        let (k0, k1) = (*rng.pick(&[1usize, 3]), *rng.pick(&[1usize, 3]));
                        body.push(LCfg::Deconv {
                            filters: c,
                            kernel: (k0, k1),
                            stride: (1, 1),
                            padding: ((k0 - 1) / 2, (k1 - 1) / 2),
                            act: *rng.pick(acts),
                            dropout: None,
                        });
                        remaining -= 1;
                    }
                    _ => {
                        // deconv k=2,s=1,p=0 grows by one; pool k=2,s=1 shrinks by one
                        let c = if remaining == 2 { c0 } else { c };
                        body.push(LCfg::Deconv {
                            filters: c,
                            kernel: (2, 2),
                            stride: (1, 1),
                            padding: (0, 0),
                            act: *rng.pick(acts),
                            dropout: None,
                        });
                        body.push(LCfg::Pool { kernel: (2, 2), stride: (1, 1) });
                        remaining -= 2;
                    }
                }
            }
        }
    }
    body
}

/// A random sequential network whose layers fit.
pub fn random_net(rng: &mut Rng, o: &NetOpts) -> NetCfg {
    for _attempt in 0..200 {
        let spatial_in = o.spatial_input.unwrap_or_else(|| rng.chance(0.6));
        let input = if spatial_in && o.kinds.iter().any(|k| *k != "dense") {
            Sh::Sp(rng.range(1, 3), rng.range(2, o.max_extent), rng.range(2, o.max_extent))
        } else {
            *rng.pick(&[Sh::Flat(2), Sh::Flat(3), Sh::Flat(4), Sh::Flat(5), Sh::Flat(9), Sh::Flat(7)])
        };
        let depth = rng.range(o.min_depth, o.max_depth);
        let mut layers: Vec<LCfg> = Vec::new();
        let mut cur = input;
        let mut ok = true;
        for li in 0..depth {
            let last = li + 1 == depth;
            let mut placed = false;
            for _ in 0..20 {
                let kind = if last && o.end_dense.is_some() { "dense" } else { *rng.pick(&o.kinds) };
                if kind == "dense" {
                    if li == 0 && !cur.is_flat() {
                        continue;
                    }
                    let act = if last { o.end_dense.unwrap_or(*rng.pick(&o.acts)) } else { *rng.pick(&o.acts) };
                    let n = if !last && o.allow_flat_to_spatial && rng.chance(0.3) { *rng.pick(&[4usize, 9, 16]) } else { rng.range(1, 6) };
                    layers.push(LCfg::Dense { n, act, bias: rng.bool(), dropout: None });
                    cur = Sh::Flat(n);
                    placed = true;
                    break;
                }
                if o.feedback && kind == "feedback" {
                    continue;
                }
                // spatial kinds
                let sp = match cur {
                    Sh::Sp(c, h, w) => Some((c, h, w)),
                    Sh::Flat(_) if li > 0 && o.allow_flat_to_spatial => cur.spatial(),
                    _ => None,
                };
                if let Some(sp) = sp {
                    if let Some(l) = random_spatial(rng, kind, sp, o) {
                        cur = out_shape(&l, Sh::Sp(sp.0, sp.1, sp.2)).unwrap();
                        layers.push(l);
                        placed = true;
                        break;
                    }
                }
            }
            if !placed {
                ok = false;
                break;
            }
        }
        if !ok || layers.is_empty() {
            continue;
        }
        let cfg = NetCfg::plain(input, layers);
        if cfg.shapes().is_ok() {
            return cfg;
        }
    }
    NetCfg::plain(Sh::Flat(3), vec![LCfg::Dense { n: 2, act: Act::Tanh, bias: true, dropout: None }])
}

/// Random input values for a shape: repetition-free, in [-1.5, 1.5].
pub fn random_input(rng: &mut Rng, sh: Sh) -> Vec<f32> {
    rng.distinct_f32(sh.count(), -1.5, 1.5)
}

/// Mostly `random_input`; sometimes data on which value-dependent shortcuts would trigger: a small
/// dyadic palette (equal elements, exact ones, cancelling pairs), all zeros, a constant vector,
/// tiny values.
pub fn varied_input(rng: &mut Rng, sh: Sh) -> Vec<f32> {
    const PALETTE: [f32; 9] = [-2.0, -1.0, -0.5, 0.0, 0.0, 0.5, 1.0, 1.0, 2.0];
    let n = sh.count();
    match rng.range(0, 24) {
        0 | 1 => (0..n).map(|_| *rng.pick(&PALETTE)).collect(),
        2 => vec![0.0; n],
        3 => vec![*rng.pick(&[1.0f32, -1.0, 0.5, 0.25]); n],
        4 => random_input(rng, sh).iter().map(|v| v * 1e-6).collect(),
        _ => random_input(rng, sh),
    }
}

/// A network in which (nearly) every layer input has the same element count, so that skip and
/// loop connections between many index pairs are well-formed.
/// kind 0: flat (dense) chain, 1: spatial chain, 2: mixed flat/spatial chain on r*r elements,
/// 3: spatial chain whose layer shapes differ while the element counts agree.
pub fn chain(rng: &mut Rng, kind: usize, depth: usize, acts: &[Act], allow_pool: bool, end_dense: bool) -> NetCfg {
    let mut layers = Vec::new();
    let same_conv = |rng: &mut Rng, c: usize| {
        let k = *rng.pick(&[1usize, 3]);
        LCfg::Conv {
            filters: c,
            kernel: (k, k),
            stride: (1, 1),
            padding: ((k - 1) / 2, (k - 1) / 2),
            dilation: (1, 1),
            act: *rng.pick(acts),
            dropout: None,
        }
    };
    let same_deconv = |rng: &mut Rng, c: usize| {
        let k = *rng.pick(&[1usize, 3]);
        LCfg::Deconv {
            filters: c,
            kernel: (k, k),
            stride: (1, 1),
            padding: ((k - 1) / 2, (k - 1) / 2),
            act: *rng.pick(acts),
            dropout: None,
        }
    };
    let input;
    match kind {
        0 => {
            let n = rng.range(1, 5);
            input = Sh::Flat(n);
            for _ in 0..depth {
                layers.push(LCfg::Dense { n, act: *rng.pick(acts), bias: rng.bool(), dropout: None });
            }
        }
        1 => {
            let (c, h, w) = (rng.range(1, 2), rng.range(2, 4), rng.range(2, 4));
            input = Sh::Sp(c, h, w);
            let mut i = 0;
            while i < depth {
                match rng.range(0, if allow_pool { 3 } else { 1 }) {
                    0 => layers.push(same_conv(rng, c)),
                    1 => layers.push(same_deconv(rng, c)),
                    2 => layers.push(LCfg::Pool { kernel: (1, 1), stride: (1, 1) }),
                    _ => {
                        if i + 1 < depth {
                            layers.push(LCfg::Deconv {
                                filters: c,
                                kernel: (2, 2),
                                stride: (1, 1),
                                padding: (0, 0),
                                act: *rng.pick(acts),
                                dropout: None,
                            });
                            layers.push(LCfg::Pool { kernel: (2, 2), stride: (1, 1) });
                            i += 1;
                        } else {
                            layers.push(same_conv(rng, c));
                        }
                    }
                }
                i += 1;
            }
        }
        3 => {
            // spatial layers whose shapes differ but whose element counts agree:
            // (c,h,w) -conv k2 s2, 4c filters-> (4c,h/2,w/2) -deconv k2 s2, c filters-> (c,h,w)
            let (c, h, w) = (rng.range(1, 2), 2 * rng.range(1, 2), 2 * rng.range(1, 2));
            input = Sh::Sp(c, h, w);
            let mut small = false;
            for _ in 0..depth {
                let (cc, _hh, _ww) = if small { (4 * c, h / 2, w / 2) } else { (c, h, w) };
                match rng.range(0, 2) {
                    0 => layers.push(same_conv(rng, cc)),
                    _ => {
                        if small {
                            layers.push(LCfg::Deconv { filters: c, kernel: (2, 2), stride: (2, 2), padding: (0, 0), act: *rng.pick(acts), dropout: None });
                        } else {
                            layers.push(LCfg::Conv { filters: 4 * c, kernel: (2, 2), stride: (2, 2), padding: (0, 0), dilation: (1, 1), act: *rng.pick(acts), dropout: None });
                        }
                        small = !small;
                    }
                }
            }
        }
        _ => {
            let r = rng.range(2, 3);
            input = Sh::Flat(r * r);
            let mut spatial = false;
            for i in 0..depth {
                let want_dense = if i == 0 { true } else { rng.chance(0.4) };
                if want_dense {
                    layers.push(LCfg::Dense { n: r * r, act: *rng.pick(acts), bias: rng.bool(), dropout: None });
                    spatial = false;
                } else {
                    let _ = spatial;
                    if rng.bool() {
                        layers.push(same_conv(rng, 1));
                    } else {
                        layers.push(same_deconv(rng, 1));
                    }
                    spatial = true;
                }
            }
        }
    }
    if end_dense {
        layers.push(LCfg::Dense { n: rng.range(1, 4), act: *rng.pick(acts), bias: rng.bool(), dropout: None });
    }
    NetCfg::plain(input, layers)
}

/// Replaces some shape-preserving layers of a chain by a feedback block (no internal skips)
/// whose body is that layer, so that blocks occur as sources / targets of connections.
pub fn wrap_blocks(rng: &mut Rng, cfg: &mut NetCfg, p: f64) {
    let shapes = match cfg.shapes() {
        Ok(s) => s,
        Err(_) => return,
    };
    for i in 0..cfg.layers.len() {
        let same = shapes[i].0 == shapes[i].1 && !shapes[i].2;
        let plain = matches!(cfg.layers[i], LCfg::Dense { .. } | LCfg::Conv { .. } | LCfg::Deconv { .. });
        // a spatial block must not follow a flat tensor (the block asserts its input shape)
        let flat_before = i > 0 && shapes[i - 1].1.is_flat() != shapes[i].0.is_flat();
        if same && plain && !flat_before && rng.chance(p) {
            let body = vec![cfg.layers[i].clone()];
            cfg.layers[i] = LCfg::Feedback { body, loops: rng.range(1, 2), inskips: false, outskips: false, acc: Acc::Mean };
        }
    }
    if cfg.shapes().is_err() {
        // undo everything if the wrapped network is not valid
        for l in cfg.layers.iter_mut() {
            if let LCfg::Feedback { body, .. } = l {
                *l = body[0].clone();
            }
        }
    }
}

/// insert_block, and the inserted block gets random internal skips (input skips, output skips)
/// and a random accumulation.
pub fn insert_block_skips(rng: &mut Rng, cfg: &mut NetCfg, max_loops: usize) -> bool {
    let before = cfg.layers.len();
    if !insert_block(rng, cfg, max_loops) {
        return false;
    }
    let (i, o, a) = (rng.bool(), rng.bool(), *rng.pick(&crate::cfg::ACCS));
    if cfg.layers.len() == before + 1 {
        for l in cfg.layers.iter_mut() {
            if let LCfg::Feedback { inskips, outskips, acc, .. } = l {
                *inskips = i;
                *outskips = o;
                *acc = a;
            }
        }
    }
    true
}

/// Inserts a shape-preserving feedback block (no internal skips, mean coupling) at a random
/// position before the last layer; returns false if that made the network invalid.
pub fn insert_block(rng: &mut Rng, cfg: &mut NetCfg, max_loops: usize) -> bool {
    let shapes = match cfg.shapes() {
        Ok(s) => s,
        Err(_) => return false,
    };
    let pos = rng.range(0, cfg.layers.len() - 1);
    let cur = if pos == 0 { cfg.input } else { shapes[pos - 1].1 };
    let len = rng.range(1, 2);
    let body = preserving_body(rng, cur, len, &ELEMENTWISE, false);
    let block = LCfg::Feedback { body, loops: rng.range(1, max_loops), inskips: false, outskips: false, acc: Acc::Mean };
    cfg.layers.insert(pos, block);
    if cfg.shapes().is_err() {
        cfg.layers.remove(pos);
        return false;
    }
    true
}
