//! Minimal JSON value, writer and parser (no external crates are available offline).

#[derive(Clone, Debug, PartialEq)]
pub enum J {
    Null,
    Bool(bool),
    Int(i64),
    Num(f64),
    Str(String),
    Arr(Vec<J>),
    Obj(Vec<(String, J)>),
}

impl J {
    pub fn obj() -> J {
        J::Obj(Vec::new())
    }
    pub fn set(mut self, k: &str, v: J) -> J {
        if let J::Obj(ref mut o) = self {
            if let Some(e) = o.iter_mut().find(|(kk, _)| kk == k) {
                e.1 = v;
            } else {
                o.push((k.to_string(), v));
            }
        }
        self
    }
    pub fn put(&mut self, k: &str, v: J) {
        if let J::Obj(ref mut o) = self {
            if let Some(e) = o.iter_mut().find(|(kk, _)| kk == k) {
                e.1 = v;
            } else {
                o.push((k.to_string(), v));
            }
        }
    }
    pub fn get(&self, k: &str) -> Option<&J> {
        match self {
            J::Obj(o) => o.iter().find(|(kk, _)| kk == k).map(|(_, v)| v),
            _ => None,
        }
    }
    pub fn as_str(&self) -> Option<&str> {
        match self {
            J::Str(s) => Some(s),
            _ => None,
        }
    }
    pub fn as_i64(&self) -> Option<i64> {
        match self {
            J::Int(i) => Some(*i),
            J::Num(f) => Some(*f as i64),
            _ => None,
        }
    }
    pub fn as_arr(&self) -> Option<&Vec<J>> {
        match self {
            J::Arr(a) => Some(a),
            _ => None,
        }
    }
    pub fn s(v: &str) -> J {
        J::Str(v.to_string())
    }
    pub fn f(v: f64) -> J {
        if v.is_finite() {
            J::Num(v)
        } else {
            J::Str(format!("{}", v))
        }
    }
    pub fn f32s(v: &[f32]) -> J {
        J::Arr(v.iter().map(|x| J::f(*x as f64)).collect())
    }
    pub fn usizes(v: &[usize]) -> J {
        J::Arr(v.iter().map(|x| J::Int(*x as i64)).collect())
    }
    pub fn strs(v: &[String]) -> J {
        J::Arr(v.iter().map(|x| J::Str(x.clone())).collect())
    }

    pub fn write(&self, out: &mut String, indent: usize, level: usize) {
        let nl = |out: &mut String, level: usize| {
            if indent > 0 {
                out.push('\n');
                for _ in 0..indent * level {
                    out.push(' ');
                }
            }
        };
        match self {
            J::Null => out.push_str("null"),
            J::Bool(b) => out.push_str(if *b { "true" } else { "false" }),
            J::Int(i) => out.push_str(&i.to_string()),
            J::Num(f) => {
                if f.is_finite() {
                    if *f == f.trunc() && f.abs() < 1e15 {
                        out.push_str(&format!("{:.1}", f));
                    } else {
                        out.push_str(&format!("{:e}", f));
                    }
                } else {
                    out.push_str("null");
                }
            }
            J::Str(s) => {
                out.push('"');
                for c in s.chars() {
                    match c {
                        '"' => out.push_str("\\\""),
                        '\\' => out.push_str("\\\\"),
                        '\n' => out.push_str("\\n"),
                        '\r' => out.push_str("\\r"),
                        '\t' => out.push_str("\\t"),
                        c if (c as u32) < 0x20 => out.push_str(&format!("\\u{:04x}", c as u32)),
                        c => out.push(c),
                    }
                }
                out.push('"');
            }
            J::Arr(a) => {
                out.push('[');
                let scalar = a.iter().all(|x| !matches!(x, J::Arr(_) | J::Obj(_)));
                for (i, v) in a.iter().enumerate() {
                    if i > 0 {
                        out.push(',');
                        if scalar && indent > 0 {
                            out.push(' ');
                        }
                    }
                    if !scalar {
                        nl(out, level + 1);
                    }
                    v.write(out, indent, level + 1);
                }
                if !scalar && !a.is_empty() {
                    nl(out, level);
                }
                out.push(']');
            }
            J::Obj(o) => {
                out.push('{');
                for (i, (k, v)) in o.iter().enumerate() {
                    if i > 0 {
                        out.push(',');
                    }
                    nl(out, level + 1);
                    J::Str(k.clone()).write(out, 0, 0);
                    out.push(':');
                    if indent > 0 {
                        out.push(' ');
                    }
                    v.write(out, indent, level + 1);
                }
                if !o.is_empty() {
                    nl(out, level);
                }
                out.push('}');
            }
        }
    }

    pub fn pretty(&self) -> String {
        let mut s = String::new();
        self.write(&mut s, 1, 0);
        s.push('\n');
        s
    }
    pub fn compact(&self) -> String {
        let mut s = String::new();
        self.write(&mut s, 0, 0);
        s
    }

    pub fn parse(text: &str) -> Result<J, String> {
        let b = text.as_bytes();
        let mut p = 0usize;
        let v = parse_value(b, &mut p)?;
        skip_ws(b, &mut p);
        if p != b.len() {
            return Err(format!("trailing data at {}", p));
        }
        Ok(v)
    }
}

fn skip_ws(b: &[u8], p: &mut usize) {
    while *p < b.len() && (b[*p] as char).is_whitespace() {
        *p += 1;
    }
}

fn parse_value(b: &[u8], p: &mut usize) -> Result<J, String> {
    skip_ws(b, p);
    if *p >= b.len() {
        return Err("unexpected end".into());
    }
    match b[*p] {
        b'{' => {
            *p += 1;
            let mut o = Vec::new();
            skip_ws(b, p);
            if *p < b.len() && b[*p] == b'}' {
                *p += 1;
                return Ok(J::Obj(o));
            }
            loop {
                skip_ws(b, p);
                let k = match parse_value(b, p)? {
                    J::Str(s) => s,
                    _ => return Err("object key must be a string".into()),
                };
                skip_ws(b, p);
                if *p >= b.len() || b[*p] != b':' {
                    return Err(format!("expected ':' at {}", p));
                }
                *p += 1;
                let v = parse_value(b, p)?;
                o.push((k, v));
                skip_ws(b, p);
                if *p < b.len() && b[*p] == b',' {
                    *p += 1;
                    continue;
                }
                if *p < b.len() && b[*p] == b'}' {
                    *p += 1;
                    return Ok(J::Obj(o));
                }
                return Err(format!("expected ',' or '}}' at {}", p));
            }
        }
        b'[' => {
            *p += 1;
            let mut a = Vec::new();
            skip_ws(b, p);
            if *p < b.len() && b[*p] == b']' {
                *p += 1;
                return Ok(J::Arr(a));
            }
            loop {
                a.push(parse_value(b, p)?);
                skip_ws(b, p);
                if *p < b.len() && b[*p] == b',' {
                    *p += 1;
                    continue;
                }
                if *p < b.len() && b[*p] == b']' {
                    *p += 1;
                    return Ok(J::Arr(a));
                }
                return Err(format!("expected ',' or ']' at {}", p));
            }
        }
        b'"' => {
            *p += 1;
            let mut s = Vec::new();
            while *p < b.len() && b[*p] != b'"' {
                if b[*p] == b'\\' {
                    *p += 1;
                    if *p >= b.len() {
                        return Err("bad escape".into());
                    }
                    match b[*p] {
                        b'n' => s.push(b'\n'),
                        b't' => s.push(b'\t'),
                        b'r' => s.push(b'\r'),
                        b'b' => s.push(8),
                        b'f' => s.push(12),
                        b'u' => {
                            let hex = std::str::from_utf8(&b[*p + 1..*p + 5]).map_err(|e| e.to_string())?;
                            let c = u32::from_str_radix(hex, 16).map_err(|e| e.to_string())?;
                            let ch = char::from_u32(c).unwrap_or('?');
                            let mut buf = [0u8; 4];
                            s.extend_from_slice(ch.encode_utf8(&mut buf).as_bytes());
                            *p += 4;
                        }
                        c => s.push(c),
                    }
                    *p += 1;
                } else {
                    s.push(b[*p]);
                    *p += 1;
                }
            }
            if *p >= b.len() {
                return Err("unterminated string".into());
            }
            *p += 1;
            Ok(J::Str(String::from_utf8_lossy(&s).into_owned()))
        }
        b't' if b[*p..].starts_with(b"true") => {
            *p += 4;
            Ok(J::Bool(true))
        }
        b'f' if b[*p..].starts_with(b"false") => {
            *p += 5;
            Ok(J::Bool(false))
        }
        b'n' if b[*p..].starts_with(b"null") => {
            *p += 4;
            Ok(J::Null)
        }
        _ => {
            let start = *p;
            while *p < b.len() && matches!(b[*p], b'-' | b'+' | b'.' | b'e' | b'E' | b'0'..=b'9') {
                *p += 1;
            }
            let t = std::str::from_utf8(&b[start..*p]).map_err(|e| e.to_string())?;
            if t.is_empty() {
                return Err(format!("unexpected character at {}", start));
            }
            if let Ok(i) = t.parse::<i64>() {
                Ok(J::Int(i))
            } else {
                t.parse::<f64>().map(J::Num).map_err(|e| format!("{}: {:?}", e, t))
            }
        }
    }
}
