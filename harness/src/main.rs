#![allow(dead_code)]
//! `nv` — runtime monitors for the `neurons` properties C01..C18.
//!
//!   nv <ID> <quick|thorough> [--result <file>]
//!   nv --replay <replay.json> [--result <file>]
//!
//! Exit codes: 0 held on everything observed, 1 violation (VIOLATION lines), 2 inconclusive.

mod cfg;
mod core;
mod gen;
mod json;
mod lib_build;
mod monitors;
mod refmodel;
mod rng;
mod train;

use crate::core::*;
use crate::json::J;

fn verif_dir() -> String {
    std::env::var("VERIF_DIR").unwrap_or_else(|_| "/verif".to_string())
}

fn emit(lines: &[String], result: &Option<String>) {
    let text: String = lines.iter().map(|l| format!("{}\n", l)).collect();
    if let Some(p) = result {
        let _ = std::fs::write(p, &text);
    } else {
        print!("{}", text);
    }
    eprint!("{}", text);
}

fn main() {
    let args: Vec<String> = std::env::args().skip(1).collect();
    let mut result: Option<String> = None;
    let mut pos: Vec<String> = Vec::new();
    let mut replay: Option<String> = None;
    let mut i = 0;
    while i < args.len() {
        match args[i].as_str() {
            "--result" => {
                result = args.get(i + 1).cloned();
                i += 2;
            }
            "--replay" => {
                replay = args.get(i + 1).cloned();
                i += 2;
            }
            _ => {
                pos.push(args[i].clone());
                i += 1;
            }
        }
    }
    if std::env::var("NV_PANICS").is_err() {
        std::panic::set_hook(Box::new(|_| {}));
    }
    if args.first().map(|a| a.as_str()) == Some("--child") {
        // helper process of a monitor (work whose crash must not take the monitor down)
        let code = match args.get(1).map(|a| a.as_str()) {
            Some("shuffle") => monitors::c18::child_main(&args[1..]),
            _ => 2,
        };
        std::process::exit(code);
    }
    let seed: u64 = std::env::var("VERIF_SEED").ok().and_then(|s| s.trim().parse().ok()).unwrap_or(1);

    if let Some(path) = replay {
        std::process::exit(do_replay(&path, &result));
    }
    if pos.is_empty() {
        eprintln!("usage: nv <ID> <quick|thorough> | nv --replay <file>");
        std::process::exit(2);
    }
    let id = pos[0].to_uppercase();
    let tier = match pos.get(1).map(|s| s.as_str()).or(std::env::var("VERIF_TIER").ok().as_deref()) {
        Some("thorough") => Tier::Thorough,
        _ => Tier::Quick,
    };
    let m = match monitors::get(&id) {
        Some(m) => m,
        None => {
            emit(&[format!("INCONCLUSIVE property={} reason=no such monitor", id)], &result);
            std::process::exit(2);
        }
    };
    let t0 = std::time::Instant::now();
    let agg = run_all(m.as_ref(), tier, seed);
    let dir = verif_dir();
    let verdict = judge(m.as_ref(), tier, seed, &agg, &dir);
    let wall = t0.elapsed().as_secs_f64();
    write_evidence(m.as_ref(), tier, seed, &agg, &verdict, wall, &dir);
    let mut lines = verdict.lines.clone();
    lines.push(format!(
        "SUMMARY property={} tier={} seed={} evaluations={} distinct_nontrivial={} new_violations={} known_findings_observed={} wall_s={:.1} verdict={}",
        id,
        tier.name(),
        seed,
        agg.evaluations,
        agg.distinct.len() as u64 + agg.distinct_extra,
        verdict.new_violations,
        verdict.known_seen.len(),
        wall,
        match verdict.code {
            0 => "held",
            1 => "violated",
            _ => "inconclusive",
        }
    ));
    emit(&lines, &result);
    std::process::exit(verdict.code);
}

fn do_replay(path: &str, result: &Option<String>) -> i32 {
    let text = match std::fs::read_to_string(path) {
        Ok(t) => t,
        Err(e) => {
            emit(&[format!("INCONCLUSIVE reason=cannot read {}: {}", path, e)], result);
            return 2;
        }
    };
    let j = match J::parse(&text) {
        Ok(j) => j,
        Err(e) => {
            emit(&[format!("INCONCLUSIVE reason=cannot parse {}: {}", path, e)], result);
            return 2;
        }
    };
    let id = j.get("property").and_then(|x| x.as_str()).unwrap_or("").to_string();
    let gen = j.get("gen").and_then(|x| x.as_str()).unwrap_or("").to_string();
    let seed = j.get("seed").and_then(|x| x.as_i64()).unwrap_or(1) as u64;
    let idx = j.get("idx").and_then(|x| x.as_i64()).unwrap_or(0) as u64;
    let tier = if j.get("tier").and_then(|x| x.as_str()) == Some("thorough") {
        Tier::Thorough
    } else {
        Tier::Quick
    };
    let m = match monitors::get(&id) {
        Some(m) => m,
        None => {
            emit(&[format!("INCONCLUSIVE reason=no monitor for {:?}", id)], result);
            return 2;
        }
    };
    let out = match guard(|| m.run(&gen, seed, idx, tier)) {
        Ok(o) => o,
        Err(msg) => {
            emit(&[format!("INCONCLUSIVE property={} reason=harness panic: {}", id, short(&msg, 300))], result);
            return 2;
        }
    };
    let mut lines = Vec::new();
    lines.push(format!("REPLAY property={} gen={} seed={} idx={} case={}", id, gen, seed, idx, short(&out.key, 300)));
    if let Some(s) = &out.sample {
        lines.push(format!("  case: {}", short(&s.compact(), 1500)));
    }
    let findings = load_findings(&format!("{}/known_findings.json", verif_dir())).unwrap_or_default();
    let mut code = 0;
    for v in out.viols.iter() {
        let known = findings.iter().any(|f| f.status == "open" && f.property == id && f.signature == v.sig);
        if known {
            lines.push(format!("KNOWN-FINDING: property={} [{}] {}", id, v.sig, short(&v.what, 600)));
        } else {
            lines.push(format!("VIOLATION property={} replay={}", id, path));
            lines.push(format!("  [{}] {}", v.sig, short(&v.what, 600)));
            lines.push(format!("  detail: {}", short(&v.detail.compact(), 3000)));
            code = 1;
        }
    }
    if out.viols.is_empty() {
        lines.push("  no violation on the current tree".to_string());
    }
    emit(&lines, result);
    code
}
