//! Network configurations shared by the library builder and the reference model, with the
//! standard shape formulas computed independently of the library.

use crate::json::J;
use crate::rng::Rng;

#[derive(Clone, Copy, PartialEq, Eq, Debug, Hash)]
pub enum Sh {
    Flat(usize),
    Sp(usize, usize, usize),
}

impl Sh {
    pub fn count(&self) -> usize {
        match self {
            Sh::Flat(n) => *n,
            Sh::Sp(c, h, w) => c * h * w,
        }
    }
    pub fn flat(&self) -> Sh {
        Sh::Flat(self.count())
    }
    pub fn is_flat(&self) -> bool {
        matches!(self, Sh::Flat(_))
    }
    pub fn name(&self) -> String {
        match self {
            Sh::Flat(n) => format!("{}", n),
            Sh::Sp(c, h, w) => format!("{}x{}x{}", c, h, w),
        }
    }
    /// How a spatial layer reads this shape: a flat r*r vector is 1 x r x r.
    pub fn spatial(&self) -> Option<(usize, usize, usize)> {
        match self {
            Sh::Sp(c, h, w) => Some((*c, *h, *w)),
            Sh::Flat(n) => {
                let r = isqrt(*n);
                if r * r == *n && r > 0 {
                    Some((1, r, r))
                } else {
                    None
                }
            }
        }
    }
}

pub fn isqrt(n: usize) -> usize {
    let mut r = (n as f64).sqrt() as usize;
    while r * r > n {
        r -= 1;
    }
    while (r + 1) * (r + 1) <= n {
        r += 1;
    }
    r
}

#[derive(Clone, Copy, PartialEq, Eq, Debug, Hash)]
pub enum Act {
    Relu,
    Leaky,
    Sigmoid,
    Tanh,
    Linear,
    Softmax,
}

pub const ELEMENTWISE: [Act; 5] = [Act::Relu, Act::Leaky, Act::Sigmoid, Act::Tanh, Act::Linear];
pub const ALL_ACTS: [Act; 6] = [Act::Relu, Act::Leaky, Act::Sigmoid, Act::Tanh, Act::Linear, Act::Softmax];

impl Act {
    pub fn name(&self) -> &'static str {
        match self {
            Act::Relu => "relu",
            Act::Leaky => "leaky",
            Act::Sigmoid => "sigmoid",
            Act::Tanh => "tanh",
            Act::Linear => "linear",
            Act::Softmax => "softmax",
        }
    }
    pub fn kinked(&self) -> bool {
        matches!(self, Act::Relu | Act::Leaky)
    }
}

#[derive(Clone, Copy, PartialEq, Eq, Debug, Hash)]
pub enum Acc {
    Add,
    Sub,
    Mul,
    Mean,
    Overwrite,
}

pub const ACCS: [Acc; 5] = [Acc::Add, Acc::Sub, Acc::Mul, Acc::Mean, Acc::Overwrite];

impl Acc {
    pub fn name(&self) -> &'static str {
        match self {
            Acc::Add => "add",
            Acc::Sub => "sub",
            Acc::Mul => "mul",
            Acc::Mean => "mean",
            Acc::Overwrite => "overwrite",
        }
    }
}

#[derive(Clone, Copy, PartialEq, Eq, Debug, Hash)]
pub enum Obj {
    AE,
    MAE,
    MSE,
    RMSE,
    CE,
    BCE,
    KL,
}

pub const OBJS: [Obj; 7] = [Obj::AE, Obj::MAE, Obj::MSE, Obj::RMSE, Obj::CE, Obj::BCE, Obj::KL];

impl Obj {
    pub fn name(&self) -> &'static str {
        match self {
            Obj::AE => "AE",
            Obj::MAE => "MAE",
            Obj::MSE => "MSE",
            Obj::RMSE => "RMSE",
            Obj::CE => "CE",
            Obj::BCE => "BCE",
            Obj::KL => "KL",
        }
    }
    /// Objectives whose prediction must lie in (0,1).
    pub fn probabilistic(&self) -> bool {
        matches!(self, Obj::CE | Obj::BCE | Obj::KL)
    }
}

type P2 = (usize, usize);

#[derive(Clone, Debug)]
pub enum LCfg {
    Dense {
        n: usize,
        act: Act,
        bias: bool,
        dropout: Option<f32>,
    },
    Conv {
        filters: usize,
        kernel: P2,
        stride: P2,
        padding: P2,
        dilation: P2,
        act: Act,
        dropout: Option<f32>,
    },
    Deconv {
        filters: usize,
        kernel: P2,
        stride: P2,
        padding: P2,
        act: Act,
        dropout: Option<f32>,
    },
    Pool {
        kernel: P2,
        stride: P2,
    },
    Feedback {
        body: Vec<LCfg>,
        loops: usize,
        inskips: bool,
        outskips: bool,
        acc: Acc,
    },
}

impl LCfg {
    pub fn kind(&self) -> &'static str {
        match self {
            LCfg::Dense { .. } => "dense",
            LCfg::Conv { .. } => "conv",
            LCfg::Deconv { .. } => "deconv",
            LCfg::Pool { .. } => "pool",
            LCfg::Feedback { .. } => "feedback",
        }
    }
    pub fn act(&self) -> Option<Act> {
        match self {
            LCfg::Dense { act, .. } | LCfg::Conv { act, .. } | LCfg::Deconv { act, .. } => Some(*act),
            _ => None,
        }
    }
    pub fn set_act(&mut self, a: Act) {
        match self {
            LCfg::Dense { act, .. } | LCfg::Conv { act, .. } | LCfg::Deconv { act, .. } => *act = a,
            _ => {}
        }
    }
    pub fn set_dropout(&mut self, d: Option<f32>) {
        match self {
            LCfg::Dense { dropout, .. } | LCfg::Conv { dropout, .. } | LCfg::Deconv { dropout, .. } => *dropout = d,
            _ => {}
        }
    }
    pub fn dropout(&self) -> Option<f32> {
        match self {
            LCfg::Dense { dropout, .. } | LCfg::Conv { dropout, .. } | LCfg::Deconv { dropout, .. } => *dropout,
            _ => None,
        }
    }
    pub fn describe(&self) -> String {
        match self {
            LCfg::Dense { n, act, bias, dropout } => {
                format!("dense({},{}{}{})", n, act.name(), if *bias { ",bias" } else { "" }, dropout.map(|d| format!(",drop{}", d)).unwrap_or_default())
            }
            LCfg::Conv { filters, kernel, stride, padding, dilation, act, dropout } => format!(
                "conv(f{},k{}x{},s{}x{},p{}x{},d{}x{},{}{})",
                filters,
                kernel.0,
                kernel.1,
                stride.0,
                stride.1,
                padding.0,
                padding.1,
                dilation.0,
                dilation.1,
                act.name(),
                dropout.map(|d| format!(",drop{}", d)).unwrap_or_default()
            ),
            LCfg::Deconv { filters, kernel, stride, padding, act, dropout } => format!(
                "deconv(f{},k{}x{},s{}x{},p{}x{},{}{})",
                filters,
                kernel.0,
                kernel.1,
                stride.0,
                stride.1,
                padding.0,
                padding.1,
                act.name(),
                dropout.map(|d| format!(",drop{}", d)).unwrap_or_default()
            ),
            LCfg::Pool { kernel, stride } => format!("pool(k{}x{},s{}x{})", kernel.0, kernel.1, stride.0, stride.1),
            LCfg::Feedback { body, loops, inskips, outskips, acc } => format!(
                "feedback[{}]x{}{}{},{}",
                body.iter().map(|l| l.describe()).collect::<Vec<_>>().join(" "),
                loops,
                if *inskips { ",inskips" } else { "" },
                if *outskips { ",outskips" } else { "" },
                acc.name()
            ),
        }
    }
    /// Descriptor without sizes of data: layer kind + geometry, used for coverage sets.
    pub fn geometry(&self) -> String {
        match self {
            LCfg::Dense { .. } => "dense".to_string(),
            LCfg::Conv { kernel, stride, padding, dilation, .. } => format!("conv k{:?} s{:?} p{:?} d{:?}", kernel, stride, padding, dilation),
            LCfg::Deconv { kernel, stride, padding, .. } => format!("deconv k{:?} s{:?} p{:?}", kernel, stride, padding),
            LCfg::Pool { kernel, stride } => format!("pool k{:?} s{:?}", kernel, stride),
            LCfg::Feedback { body, loops, .. } => format!("feedback {}x{}", body.len(), loops),
        }
    }
}

/// Output shape by the standard closed forms; `Err` when the configuration is not valid for
/// the input (effective kernel does not fit, flat size not a perfect square, ...).
pub fn out_shape(l: &LCfg, input: Sh) -> Result<Sh, String> {
    match l {
        LCfg::Dense { n, .. } => {
            if *n == 0 {
                return Err("dense with zero outputs".into());
            }
            Ok(Sh::Flat(*n))
        }
        LCfg::Conv { filters, kernel, stride, padding, dilation, .. } => {
            let (_, h, w) = input.spatial().ok_or("flat size is not a perfect square")?;
            let one = |i: usize, k: usize, s: usize, p: usize, d: usize| -> Result<usize, String> {
                if k == 0 || s == 0 || d == 0 {
                    return Err("zero kernel/stride/dilation".into());
                }
                let eff = d * (k - 1) + 1;
                if i + 2 * p < eff {
                    return Err("effective kernel larger than padded input".into());
                }
                Ok((i + 2 * p - eff) / s + 1)
            };
            Ok(Sh::Sp(*filters, one(h, kernel.0, stride.0, padding.0, dilation.0)?, one(w, kernel.1, stride.1, padding.1, dilation.1)?))
        }
        LCfg::Deconv { filters, kernel, stride, padding, .. } => {
            let (_, h, w) = input.spatial().ok_or("flat size is not a perfect square")?;
            let one = |i: usize, k: usize, s: usize, p: usize| -> Result<usize, String> {
                if k == 0 || s == 0 || i == 0 {
                    return Err("zero kernel/stride/input".into());
                }
                let full = (i - 1) * s + k;
                if full <= 2 * p {
                    return Err("padding crops the whole output".into());
                }
                Ok(full - 2 * p)
            };
            Ok(Sh::Sp(*filters, one(h, kernel.0, stride.0, padding.0)?, one(w, kernel.1, stride.1, padding.1)?))
        }
        LCfg::Pool { kernel, stride } => {
            let (c, h, w) = input.spatial().ok_or("flat size is not a perfect square")?;
            let one = |i: usize, k: usize, s: usize| -> Result<usize, String> {
                if k == 0 || s == 0 {
                    return Err("zero kernel/stride".into());
                }
                if i < k {
                    return Err("pool window larger than input".into());
                }
                Ok((i - k) / s + 1)
            };
            Ok(Sh::Sp(c, one(h, kernel.0, stride.0)?, one(w, kernel.1, stride.1)?))
        }
        LCfg::Feedback { body, loops, .. } => {
            if *loops == 0 || body.is_empty() {
                return Err("empty feedback block".into());
            }
            let mut s = normalise_input(&body[0], input)?;
            let first = s;
            for (i, b) in body.iter().enumerate() {
                if matches!(b, LCfg::Feedback { .. }) {
                    return Err("nested feedback".into());
                }
                if i > 0 && matches!(b, LCfg::Dense { .. }) && !s.is_flat() {
                    return Err("dense after spatial layer inside a block (no flatten inside blocks)".into());
                }
                s = out_shape(b, s)?;
            }
            if s != first {
                return Err(format!("block output {} differs from block input {}", s.name(), first.name()));
            }
            Ok(s)
        }
    }
}

/// The shape in which a layer holds its input (flat r*r becomes 1xrxr for spatial layers).
pub fn normalise_input(l: &LCfg, input: Sh) -> Result<Sh, String> {
    match l {
        LCfg::Dense { .. } => Ok(input.flat()),
        LCfg::Feedback { body, .. } => normalise_input(&body[0], input),
        _ => {
            let (c, h, w) = input.spatial().ok_or("flat size is not a perfect square")?;
            Ok(Sh::Sp(c, h, w))
        }
    }
}

/// Parameters of one layer.
#[derive(Clone, Debug)]
pub enum P {
    Dense { w: Vec<Vec<f32>>, b: Option<Vec<f32>> },
    /// [filter][channel][h][w]
    Kern(Vec<Vec<Vec<Vec<f32>>>>),
    None,
    /// Parameters of the body of a feedback block (shared by all repetitions).
    Block(Vec<P>),
}

impl P {
    pub fn count(&self) -> usize {
        match self {
            P::Dense { w, b } => w.iter().map(|r| r.len()).sum::<usize>() + b.as_ref().map(|b| b.len()).unwrap_or(0),
            P::Kern(k) => k.iter().map(|f| f.iter().map(|c| c.iter().map(|r| r.len()).sum::<usize>()).sum::<usize>()).sum(),
            P::None => 0,
            P::Block(b) => b.iter().map(|p| p.count()).sum(),
        }
    }
    pub fn flat(&self) -> Vec<f32> {
        let mut out = Vec::new();
        match self {
            P::Dense { w, b } => {
                for r in w {
                    out.extend_from_slice(r);
                }
                if let Some(b) = b {
                    out.extend_from_slice(b);
                }
            }
            P::Kern(k) => {
                for f in k {
                    for c in f {
                        for r in c {
                            out.extend_from_slice(r);
                        }
                    }
                }
            }
            P::None => {}
            P::Block(b) => {
                for p in b {
                    out.extend(p.flat());
                }
            }
        }
        out
    }
    pub fn set_flat(&mut self, vals: &[f32]) -> usize {
        let mut i = 0;
        match self {
            P::Dense { w, b } => {
                for r in w.iter_mut() {
                    for x in r.iter_mut() {
                        *x = vals[i];
                        i += 1;
                    }
                }
                if let Some(b) = b {
                    for x in b.iter_mut() {
                        *x = vals[i];
                        i += 1;
                    }
                }
            }
            P::Kern(k) => {
                for f in k.iter_mut() {
                    for c in f.iter_mut() {
                        for r in c.iter_mut() {
                            for x in r.iter_mut() {
                                *x = vals[i];
                                i += 1;
                            }
                        }
                    }
                }
            }
            P::None => {}
            P::Block(b) => {
                for p in b.iter_mut() {
                    i += p.set_flat(&vals[i..]);
                }
            }
        }
        i
    }
}

#[derive(Clone, Debug)]
pub struct NetCfg {
    pub input: Sh,
    pub layers: Vec<LCfg>,
    /// (from, to): the input fed to layer `from` is combined into the input of layer `to`.
    pub skips: Vec<(usize, usize)>,
    pub skipacc: Acc,
    /// (outof, into, iterations, inskips)
    pub loops: Vec<(usize, usize, usize, bool)>,
    /// Leave accumulations that concern nothing in the network at the configured values
    /// (`lib_build::build` otherwise sets them to arbitrary values).
    pub keep_default_accumulations: bool,
    pub loopacc: Acc,
    /// The gradient scaling closure handed to `loopback` (it concerns the backward pass only):
    /// 0: 1/x (as in the crate's documentation), 1: constant 1 (as in its examples), 2: 1/sqrt(x),
    /// 3: x. Only forward-only monitors choose anything but 0.
    pub loopscale: usize,
}

impl NetCfg {
    pub fn plain(input: Sh, layers: Vec<LCfg>) -> NetCfg {
        NetCfg {
            input,
            layers,
            skips: Vec::new(),
            skipacc: Acc::Add,
            loops: Vec::new(),
            keep_default_accumulations: false,
            loopacc: Acc::Mean,
            loopscale: 0,
        }
    }
    /// Per layer: (shape of the input as the layer holds it, output shape, output is flattened).
    pub fn shapes(&self) -> Result<Vec<(Sh, Sh, bool)>, String> {
        let mut out = Vec::new();
        let mut cur = self.input;
        for (i, l) in self.layers.iter().enumerate() {
            if i == 0 {
                match (l, cur) {
                    (LCfg::Dense { .. }, Sh::Sp(..)) => return Err("first layer dense on spatial input".into()),
                    (LCfg::Conv { .. } | LCfg::Deconv { .. } | LCfg::Pool { .. }, Sh::Flat(_)) => return Err("first layer spatial on flat input".into()),
                    _ => {}
                }
            }
            let inp = normalise_input(l, cur).map_err(|e| format!("layer {}: {}", i, e))?;
            let o = out_shape(l, inp).map_err(|e| format!("layer {}: {}", i, e))?;
            out.push((inp, o, false));
            cur = o;
        }
        for i in 0..self.layers.len() {
            if i + 1 < self.layers.len() && matches!(self.layers[i + 1], LCfg::Dense { .. }) && !out[i].1.is_flat() {
                out[i].2 = true;
            }
        }
        Ok(out)
    }
    pub fn describe(&self) -> String {
        let mut s = format!("in {} | {}", self.input.name(), self.layers.iter().map(|l| l.describe()).collect::<Vec<_>>().join(" > "));
        if !self.skips.is_empty() {
            s.push_str(&format!(" | skips {:?} {}", self.skips, self.skipacc.name()));
        }
        if !self.loops.is_empty() {
            s.push_str(&format!(" | loops {:?} {}", self.loops, self.loopacc.name()));
            if self.loopscale != 0 {
                s.push_str(["", " scale=1", " scale=1/sqrt(x)", " scale=x"][self.loopscale.min(3)]);
            }
        }
        s
    }
    pub fn architecture(&self) -> String {
        self.layers.iter().map(|l| l.kind()).collect::<Vec<_>>().join("-")
    }
}

fn gen_one(l: &LCfg, input: Sh, rng: &mut Rng, lo: f32, hi: f32) -> Result<(P, Sh), String> {
    let inp = normalise_input(l, input)?;
    let out = out_shape(l, inp)?;
    let p = match l {
        LCfg::Dense { n, bias, .. } => {
            let m = inp.count();
            let vals = rng.distinct_f32(n * m + n, lo, hi);
            let w = (0..*n).map(|r| vals[r * m..(r + 1) * m].to_vec()).collect();
            let b = if *bias { Some(vals[n * m..].to_vec()) } else { None };
            P::Dense { w, b }
        }
        LCfg::Conv { filters, kernel, .. } | LCfg::Deconv { filters, kernel, .. } => {
            let (c, _, _) = inp.spatial().unwrap();
            let total = filters * c * kernel.0 * kernel.1;
            let vals = rng.distinct_f32(total, lo, hi);
            let mut it = vals.into_iter();
            P::Kern((0..*filters).map(|_| (0..c).map(|_| (0..kernel.0).map(|_| (0..kernel.1).map(|_| it.next().unwrap()).collect()).collect()).collect()).collect())
        }
        LCfg::Pool { .. } => P::None,
        LCfg::Feedback { body, .. } => {
            let mut s = inp;
            let mut ps = Vec::new();
            for b in body {
                let (p, o) = gen_one(b, s, rng, lo, hi)?;
                ps.push(p);
                s = o;
            }
            P::Block(ps)
        }
    };
    Ok((p, out))
}

/// Random repetition-free parameters for every layer.
pub fn gen_params(cfg: &NetCfg, rng: &mut Rng, lo: f32, hi: f32) -> Result<Vec<P>, String> {
    let mut cur = cfg.input;
    let mut out = Vec::new();
    for l in cfg.layers.iter() {
        let (p, o) = gen_one(l, cur, rng, lo, hi)?;
        out.push(p);
        cur = o;
    }
    Ok(out)
}

pub fn params_json(params: &[P]) -> J {
    J::Arr(params.iter().map(|p| J::f32s(&p.flat())).collect())
}
