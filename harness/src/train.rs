//! Helpers for the training-level monitors: dedicated rayon pools whose threads carry a
//! `neurons::verif` session (event recording + delay injection), sample tags, data sets.

use crate::cfg::*;
use crate::lib_build::*;
use crate::rng::Rng;
use neurons::tensor::Tensor;
use neurons::verif::{self, Event};
use std::sync::atomic::{AtomicU64, Ordering};

static NEXT_SESSION: AtomicU64 = AtomicU64::new(1);

pub fn new_session() -> u64 {
    NEXT_SESSION.fetch_add(1, Ordering::Relaxed)
}

/// Runs `f` inside a dedicated rayon pool of `threads` threads, all of which record events under
/// `session` and (if `delay_max_us > 0`) stall at the entry of every `Network::forward`.
/// Returns the result and the session's events in recording order.
pub fn in_pool<T: Send>(threads: usize, session: u64, delay_seed: u64, delay_max_us: u32, f: impl FnOnce() -> T + Send) -> (T, Vec<Event>) {
    let pool = rayon::ThreadPoolBuilder::new()
        .num_threads(threads.max(1))
        .start_handler(move |i| verif::set_session(session, delay_seed.wrapping_mul(0x9E3779B97F4A7C15).wrapping_add((i as u64).wrapping_mul(0xD6E8FEB86659FD93)), delay_max_us))
        .build()
        .expect("harness: cannot build rayon pool");
    let r = pool.install(f);
    drop(pool);
    (r, verif::drain(session))
}

thread_local! {
    static POOLS: std::cell::RefCell<std::collections::HashMap<usize, (u64, std::rc::Rc<rayon::ThreadPool>)>> = std::cell::RefCell::new(std::collections::HashMap::new());
}

/// Like `in_pool` without delays, but the pool (and its session) is cached per harness worker
/// thread and pool size; the session's events are drained before and after the call.
pub fn in_cached_pool<T: Send>(threads: usize, f: impl FnOnce() -> T + Send) -> (T, Vec<Event>) {
    let (session, pool) = POOLS.with(|p| {
        let mut p = p.borrow_mut();
        let e = p.entry(threads).or_insert_with(|| {
            let session = new_session();
            let pool = rayon::ThreadPoolBuilder::new().num_threads(threads.max(1)).start_handler(move |_| verif::set_session(session, 0, 0)).build().expect("harness: cannot build rayon pool");
            (session, std::rc::Rc::new(pool))
        });
        (e.0, e.1.clone())
    });
    verif::drain(session);
    let r = pool.install(f);
    (r, verif::drain(session))
}

/// The tag `neurons::verif` computes for an input tensor (FNV-1a over the f32 bit patterns).
pub fn tag_of(data: &[f32]) -> u64 {
    let mut h: u64 = 0xcbf29ce484222325;
    for v in data {
        for b in v.to_bits().to_le_bytes() {
            h ^= b as u64;
            h = h.wrapping_mul(0x100000001b3);
        }
    }
    h
}

pub struct DataSet {
    pub sh: Sh,
    pub xs: Vec<Vec<f32>>,
    pub ts: Vec<Vec<f32>>,
    pub x_tensors: Vec<Tensor>,
    pub t_tensors: Vec<Tensor>,
}

impl DataSet {
    pub fn new(sh: Sh, xs: Vec<Vec<f32>>, ts: Vec<Vec<f32>>) -> DataSet {
        let x_tensors = xs.iter().map(|x| tensor_of(sh, x)).collect();
        let t_tensors = ts.iter().map(|t| Tensor::single(t.clone())).collect();
        DataSet { sh, xs, ts, x_tensors, t_tensors }
    }
    pub fn len(&self) -> usize {
        self.xs.len()
    }
    pub fn x_refs(&self) -> Vec<&Tensor> {
        self.x_tensors.iter().collect()
    }
    pub fn t_refs(&self) -> Vec<&Tensor> {
        self.t_tensors.iter().collect()
    }
    pub fn tags(&self) -> Vec<u64> {
        self.xs.iter().map(|x| tag_of(x)).collect()
    }
}

/// Random data: inputs in [-1,1] (pairwise different), targets suited to the objective.
pub fn random_data(rng: &mut Rng, sh: Sh, n: usize, outputs: usize, obj: Obj, softmax: bool) -> DataSet {
    let mut xs: Vec<Vec<f32>> = Vec::new();
    // one data set in six is a slow walk: consecutive inputs differ by a few 1e-6 per component
    // (different samples that an approximate comparison would take for equal)
    let walk = n >= 2 && rng.range(0, 5) == 0;
    while xs.len() < n {
        let x: Vec<f32> = match (walk, xs.last()) {
            (true, Some(prev)) => prev.iter().map(|v| v + rng.f32_in(1e-6, 6e-6) * if rng.bool() { 1.0 } else { -1.0 }).collect(),
            _ => (0..sh.count()).map(|_| rng.f32_in(-1.0, 1.0)).collect(),
        };
        if !xs.contains(&x) {
            xs.push(x);
        }
    }
    let ts: Vec<Vec<f32>> = (0..n)
        .map(|_| {
            if softmax {
                let k = rng.range(0, outputs - 1);
                (0..outputs).map(|i| if i == k { 1.0 } else { 0.0 }).collect()
            } else if obj.probabilistic() {
                (0..outputs).map(|_| rng.f32_in(0.05, 0.95)).collect()
            } else {
                (0..outputs).map(|_| rng.f32_in(-1.0, 1.0)).collect()
            }
        })
        .collect();
    DataSet::new(sh, xs, ts)
}

pub fn gen_optimizer(rng: &mut Rng, kind: usize) -> OptCfg {
    let lr = *rng.pick(&[0.5f32, 0.1, 0.05, 0.01]);
    let decay = if rng.chance(0.3) { Some(0.01f32) } else { None };
    match kind % 5 {
        0 => OptCfg::Sgd { lr, decay },
        1 => OptCfg::Sgdm { lr, momentum: 0.9, dampening: if rng.bool() { 0.1 } else { 0.0 }, decay },
        2 => OptCfg::Adam { lr: lr * 0.1, b1: 0.9, b2: 0.999, eps: 1e-8, decay },
        3 => OptCfg::AdamW { lr: lr * 0.1, b1: 0.9, b2: 0.99, eps: 1e-8, decay: 0.01 },
        _ => OptCfg::Rmsprop { lr: lr * 0.1, alpha: 0.9, eps: 1e-7, decay, momentum: if rng.bool() { Some(0.5) } else { None }, centered: rng.bool() },
    }
}

pub fn forward_tags(events: &[Event]) -> Vec<u64> {
    events
        .iter()
        .filter_map(|e| match e {
            Event::Forward { tag, .. } => Some(*tag),
            _ => None,
        })
        .collect()
}
