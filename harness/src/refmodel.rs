//! Reference model: the mathematical definitions of the layers, of network composition
//! (skip connections, loop connections, feedback blocks) and of the objectives, written
//! independently of the library's code paths and generic over a scalar type:
//!
//! * `f64`   — plain values,
//! * `D`     — forward-mode dual number carrying the exact derivative `d` and the same
//!             derivative evaluated on absolute values `m` (magnitude of the summed terms),
//! * `E`     — value plus a running bound on the rounding error a correct single-precision
//!             implementation may accumulate.

use crate::cfg::*;

pub const EPS32: f64 = 5.9604644775390625e-8; // 2^-24

pub trait Sc: Copy + Clone + std::fmt::Debug {
    fn c(v: f64) -> Self;
    fn v(&self) -> f64;
    fn add(self, o: Self) -> Self;
    fn sub(self, o: Self) -> Self;
    fn mul(self, o: Self) -> Self;
    fn div(self, o: Self) -> Self;
    /// Piecewise-linear map `x -> slope * x` where the slope depends on the sign of the value.
    fn pl(self, neg_slope: f64, pos_slope: f64) -> Self;
    fn sigmoid(self) -> Self;
    fn tanh(self) -> Self;
    fn exp(self) -> Self;
    fn ln(self) -> Self;
    fn sqrt(self) -> Self;
    fn abs(self) -> Self {
        self.pl(-1.0, 1.0)
    }
    /// True if the two numbers are known to be the same local function of the variables (used
    /// for pool windows whose tied elements are structurally identical, e.g. a flat image
    /// background). Only the dual-number type can tell.
    fn same_local_fn(&self, _o: &Self) -> bool {
        false
    }
    fn scale(self, k: f64) -> Self {
        self.mul(Self::c(k))
    }
}

impl Sc for f64 {
    fn c(v: f64) -> f64 {
        v
    }
    fn v(&self) -> f64 {
        *self
    }
    fn add(self, o: f64) -> f64 {
        self + o
    }
    fn sub(self, o: f64) -> f64 {
        self - o
    }
    fn mul(self, o: f64) -> f64 {
        self * o
    }
    fn div(self, o: f64) -> f64 {
        self / o
    }
    fn pl(self, n: f64, p: f64) -> f64 {
        if self > 0.0 {
            p * self
        } else {
            n * self
        }
    }
    fn sigmoid(self) -> f64 {
        sigmoid64(self)
    }
    fn tanh(self) -> f64 {
        f64::tanh(self)
    }
    fn exp(self) -> f64 {
        f64::exp(self)
    }
    fn ln(self) -> f64 {
        f64::ln(self)
    }
    fn sqrt(self) -> f64 {
        f64::sqrt(self)
    }
}

pub fn sigmoid64(x: f64) -> f64 {
    if x >= 0.0 {
        1.0 / (1.0 + (-x).exp())
    } else {
        let e = x.exp();
        e / (1.0 + e)
    }
}

/// Dual number: value `v`, exact derivative `d`, the derivative evaluated on absolute values
/// `m` (magnitude of the summed terms), plus running first-order bounds on the error that a
/// correct single-precision evaluation may have in the value (`e`) and in the derivative (`de`,
/// which includes the effect of the forward rounding errors on the derivative factors).
#[derive(Clone, Copy, Debug)]
pub struct D {
    pub v: f64,
    pub d: f64,
    pub m: f64,
    pub e: f64,
    pub de: f64,
}

const T45: f64 = 1.5e-45;

/// Product that treats `0 * inf` as 0 (an exactly-zero factor contributes nothing).
fn zmul(a: f64, b: f64) -> f64 {
    if a == 0.0 || b == 0.0 {
        0.0
    } else {
        a * b
    }
}

impl D {
    pub fn var(v: f64) -> D {
        D { v, d: 1.0, m: 1.0, e: 0.0, de: 0.0 }
    }
    /// Unary map with value `v`, first derivative `f1`, a bound `f2` on |f''| near the argument,
    /// `rv` / `r1` = absolute rounding error of a correct f32 evaluation of f / f'.
    fn un(self, v: f64, f1: f64, f2: f64, rv: f64, r1: f64) -> D {
        D {
            v,
            d: f1 * self.d,
            m: f1.abs() * self.m,
            e: zmul(f1.abs(), self.e) + zmul(f2, self.e * self.e) + rv + T45,
            de: zmul(f1.abs(), self.de) + zmul(self.d.abs(), zmul(f2, self.e) + r1) + EPS32 * (f1 * self.d).abs() + T45 * (self.d != 0.0) as u8 as f64,
        }
    }
}

impl Sc for D {
    fn same_local_fn(&self, o: &D) -> bool {
        self.v == o.v && (self.d - o.d).abs() <= 1e-12 * (1.0 + self.d.abs().max(o.d.abs()))
    }
    fn c(v: f64) -> D {
        D { v, d: 0.0, m: 0.0, e: 0.0, de: 0.0 }
    }
    fn v(&self) -> f64 {
        self.v
    }
    fn add(self, o: D) -> D {
        let (v, d) = (self.v + o.v, self.d + o.d);
        D {
            v,
            d,
            m: self.m + o.m,
            e: self.e + o.e + EPS32 * v.abs() + T45,
            de: self.de + o.de + EPS32 * d.abs(),
        }
    }
    fn sub(self, o: D) -> D {
        let (v, d) = (self.v - o.v, self.d - o.d);
        D {
            v,
            d,
            m: self.m + o.m,
            e: self.e + o.e + EPS32 * v.abs() + T45,
            de: self.de + o.de + EPS32 * d.abs(),
        }
    }
    fn mul(self, o: D) -> D {
        let v = self.v * o.v;
        let (t1, t2) = (self.v * o.d, o.v * self.d);
        D {
            v,
            d: t1 + t2,
            m: self.v.abs() * o.m + o.v.abs() * self.m,
            e: zmul(self.v.abs(), o.e) + zmul(o.v.abs(), self.e) + zmul(self.e, o.e) + EPS32 * v.abs() + T45,
            de: zmul(self.v.abs(), o.de) + zmul(o.d.abs(), self.e) + zmul(o.v.abs(), self.de) + zmul(self.d.abs(), o.e) + zmul(self.e, o.de) + zmul(o.e, self.de) + 2.0 * EPS32 * (t1.abs() + t2.abs()),
        }
    }
    fn div(self, o: D) -> D {
        // a * (1/b)
        let b = o.v;
        let den = (b.abs() - o.e).max(1e-300);
        let r = 1.0 / b;
        let dr = -o.d / (b * b);
        let recip = D {
            v: r,
            d: dr,
            m: o.m / (b * b),
            e: zmul(o.e, 1.0 / (b.abs() * den)) + EPS32 * r.abs(),
            de: zmul(o.de, 1.0 / (den * den)) + 2.0 * zmul(o.d.abs() * o.e, 1.0 / (den * den * den)) + EPS32 * dr.abs(),
        };
        self.mul(recip)
    }
    fn pl(self, n: f64, p: f64) -> D {
        let s = if self.v > 0.0 { p } else { n };
        let lip = n.abs().max(p.abs());
        // if the rounding error could move the argument across the kink, the slope is uncertain
        let flip = if self.e >= self.v.abs() { (p - n).abs() * self.d.abs() } else { 0.0 };
        D {
            v: s * self.v,
            d: s * self.d,
            m: s.abs() * self.m,
            e: lip * self.e + EPS32 * (s * self.v).abs() + T45,
            de: lip * self.de + flip + EPS32 * (s * self.d).abs(),
        }
    }
    fn sigmoid(self) -> D {
        let s = sigmoid64(self.v);
        // y(1-y) in f32: absolute error of a few eps; |f''| <= 0.0963
        self.un(s, s * (1.0 - s), 0.1, 8.0 * EPS32 * s + 4.0 * EPS32 * s * s, 6.0 * EPS32)
    }
    fn tanh(self) -> D {
        let t = self.v.tanh();
        let c = self.v.cosh();
        let f1 = 1.0 / (c * c);
        // |f''| = 2|t|(1-t^2) <= 0.77 globally, evaluated locally with slack
        let f2 = (2.0 * t.abs() * f1).max(f1) + 0.05;
        self.un(t, f1, f2.min(0.8), 8.0 * EPS32 * t.abs(), 12.0 * EPS32 * f1)
    }
    fn exp(self) -> D {
        let e = self.v.exp();
        self.un(e, e, e * (self.e.min(1.0)).exp(), 8.0 * EPS32 * e, 8.0 * EPS32 * e)
    }
    fn ln(self) -> D {
        let a = (self.v.abs() - self.e).max(1e-300);
        self.un(self.v.ln(), 1.0 / self.v, 1.0 / (a * a), 8.0 * EPS32 * self.v.ln().abs() + 4.0 * EPS32, 4.0 * EPS32 / a)
    }
    fn sqrt(self) -> D {
        let s = self.v.sqrt();
        let a = (self.v.abs() - self.e).max(1e-300);
        self.un(s, 0.5 / s, 0.25 / (a * a.sqrt()), EPS32 * s, 2.0 * EPS32 * 0.5 / s)
    }
}

/// Value with a running rounding-error bound for a correct f32 evaluation.
#[derive(Clone, Copy, Debug)]
pub struct E {
    pub v: f64,
    pub e: f64,
}

const TINY: f64 = 1.5e-45;

impl E {
    fn r(v: f64, e: f64) -> E {
        E {
            v,
            e: e + EPS32 * v.abs() + TINY,
        }
    }
    pub fn exact(v: f64) -> E {
        E { v, e: 0.0 }
    }
}

impl Sc for E {
    fn c(v: f64) -> E {
        E { v, e: 0.0 }
    }
    fn v(&self) -> f64 {
        self.v
    }
    fn add(self, o: E) -> E {
        E::r(self.v + o.v, self.e + o.e)
    }
    fn sub(self, o: E) -> E {
        E::r(self.v - o.v, self.e + o.e)
    }
    fn mul(self, o: E) -> E {
        E::r(self.v * o.v, self.v.abs() * o.e + o.v.abs() * self.e + self.e * o.e)
    }
    fn div(self, o: E) -> E {
        let den = (o.v.abs() - o.e).max(1e-300);
        E::r(self.v / o.v, self.e / den + self.v.abs() * o.e / (den * den))
    }
    fn pl(self, n: f64, p: f64) -> E {
        let s = if self.v > 0.0 { p } else { n };
        // Lipschitz constant max(|n|,|p|) also covers a sign flip inside the error interval.
        E::r(s * self.v, n.abs().max(p.abs()) * self.e)
    }
    fn sigmoid(self) -> E {
        // 1/(1+exp(-x)) in f32: a few ulp of the result plus a few ulp of 1 when saturated.
        let s = sigmoid64(self.v);
        E {
            v: s,
            e: 0.25 * self.e + 8.0 * EPS32 * s + 4.0 * EPS32 * s * s + TINY,
        }
    }
    fn tanh(self) -> E {
        let t = self.v.tanh();
        E {
            v: t,
            e: self.e + 8.0 * EPS32 * t.abs() + TINY,
        }
    }
    fn exp(self) -> E {
        let e = self.v.exp();
        E {
            v: e,
            e: e * (self.e.min(50.0).exp() - 1.0) + 8.0 * EPS32 * e + TINY,
        }
    }
    fn ln(self) -> E {
        let den = (self.v.abs() - self.e).max(1e-300);
        E {
            v: self.v.ln(),
            e: self.e / den + 8.0 * EPS32 * self.v.ln().abs() + 4.0 * EPS32,
        }
    }
    fn sqrt(self) -> E {
        let s = self.v.sqrt();
        E::r(s, self.e / (2.0 * s).max(1e-300))
    }
}

#[derive(Clone, Debug)]
pub struct Val<S> {
    pub sh: Sh,
    pub d: Vec<S>,
}

impl<S: Sc> Val<S> {
    pub fn from_f32(sh: Sh, data: &[f32]) -> Val<S> {
        assert_eq!(sh.count(), data.len(), "harness: Val size mismatch");
        Val {
            sh,
            d: data.iter().map(|x| S::c(*x as f64)).collect(),
        }
    }
    pub fn values(&self) -> Vec<f64> {
        self.d.iter().map(|x| x.v()).collect()
    }
    pub fn reshaped(&self, sh: Sh) -> Val<S> {
        assert_eq!(sh.count(), self.d.len(), "harness: reshape size mismatch");
        Val { sh, d: self.d.clone() }
    }
}

pub fn act_apply<S: Sc>(act: Act, pre: &[S]) -> Vec<S> {
    match act {
        Act::Relu => pre.iter().map(|x| x.pl(0.0, 1.0)).collect(),
        Act::Leaky => pre.iter().map(|x| x.pl(0.01, 1.0)).collect(),
        Act::Sigmoid => pre.iter().map(|x| x.sigmoid()).collect(),
        Act::Tanh => pre.iter().map(|x| x.tanh()).collect(),
        Act::Linear => pre.to_vec(),
        Act::Softmax => softmax(pre),
    }
}

pub fn softmax<S: Sc>(x: &[S]) -> Vec<S> {
    let mx = x.iter().map(|v| v.v()).fold(f64::NEG_INFINITY, f64::max);
    let ex: Vec<S> = x.iter().map(|v| v.sub(S::c(mx)).exp()).collect();
    let mut sum = S::c(0.0);
    for e in ex.iter() {
        sum = sum.add(*e);
    }
    ex.iter().map(|e| e.div(sum)).collect()
}

type K4<S> = Vec<Vec<Vec<Vec<S>>>>;

#[derive(Clone, Debug)]
pub enum RL<S> {
    Dense { w: Vec<Vec<S>>, b: Option<Vec<S>>, act: Act },
    Conv { k: K4<S>, stride: (usize, usize), padding: (usize, usize), dilation: (usize, usize), act: Act },
    Deconv { k: K4<S>, stride: (usize, usize), padding: (usize, usize), act: Act },
    Pool { kernel: (usize, usize), stride: (usize, usize) },
    /// Unrolled copies of the body (kept separate so that a single copy can be differentiated).
    Block { copies: Vec<Vec<RL<S>>>, inskips: bool, outskips: bool, acc: Acc },
}

/// What the reference saw while evaluating one plain layer.
#[derive(Clone, Debug)]
pub struct Step<S> {
    pub pre: Val<S>,
    pub post: Val<S>,
    /// min |pre| over elements fed to a kinked activation (inf if none).
    pub kink: f64,
    /// min gap between the largest and second largest element of a pool window (inf if none).
    pub gap: f64,
    /// row-major arg-max position (flat index into the input) per pool output.
    pub argmax: Vec<usize>,
}

fn idx3(sh: (usize, usize, usize), c: usize, h: usize, w: usize) -> usize {
    (c * sh.1 + h) * sh.2 + w
}

/// One plain (non-block) layer applied to `x`.
pub fn layer_forward<S: Sc>(l: &RL<S>, x: &Val<S>) -> Step<S> {
    match l {
        RL::Dense { w, b, act } => {
            assert_eq!(w[0].len(), x.d.len(), "harness: dense input size");
            let mut pre = Vec::with_capacity(w.len());
            for (o, row) in w.iter().enumerate() {
                let mut s = S::c(0.0);
                for (wi, xi) in row.iter().zip(x.d.iter()) {
                    s = s.add(wi.mul(*xi));
                }
                if let Some(b) = b {
                    s = s.add(b[o]);
                }
                pre.push(s);
            }
            let kink = if act.kinked() { pre.iter().map(|p| p.v().abs()).fold(f64::INFINITY, f64::min) } else { f64::INFINITY };
            let post = act_apply(*act, &pre);
            let sh = Sh::Flat(pre.len());
            Step {
                pre: Val { sh, d: pre },
                post: Val { sh, d: post },
                kink,
                gap: f64::INFINITY,
                argmax: Vec::new(),
            }
        }
        RL::Conv { k, stride, padding, dilation, act } => {
            let (c, h, w) = x.sh.spatial().expect("harness: conv input not spatial");
            assert_eq!(k[0].len(), c, "harness: conv channels");
            let (kh, kw) = (k[0][0].len(), k[0][0][0].len());
            let oh = (h + 2 * padding.0 - dilation.0 * (kh - 1) - 1) / stride.0 + 1;
            let ow = (w + 2 * padding.1 - dilation.1 * (kw - 1) - 1) / stride.1 + 1;
            let mut pre = Vec::with_capacity(k.len() * oh * ow);
            for f in 0..k.len() {
                for a in 0..oh {
                    for b in 0..ow {
                        let mut s = S::c(0.0);
                        for ch in 0..c {
                            for i in 0..kh {
                                // Row of the (virtually) padded input; inside the real input iff 0 <= r < h.
                                let r = (a * stride.0 + i * dilation.0) as isize - padding.0 as isize;
                                if r < 0 || r >= h as isize {
                                    continue;
                                }
                                for j in 0..kw {
                                    let q = (b * stride.1 + j * dilation.1) as isize - padding.1 as isize;
                                    if q < 0 || q >= w as isize {
                                        continue;
                                    }
                                    s = s.add(k[f][ch][i][j].mul(x.d[idx3((c, h, w), ch, r as usize, q as usize)]));
                                }
                            }
                        }
                        pre.push(s);
                    }
                }
            }
            let kink = if act.kinked() { pre.iter().map(|p| p.v().abs()).fold(f64::INFINITY, f64::min) } else { f64::INFINITY };
            let post = act_apply(*act, &pre);
            let sh = Sh::Sp(k.len(), oh, ow);
            Step {
                pre: Val { sh, d: pre },
                post: Val { sh, d: post },
                kink,
                gap: f64::INFINITY,
                argmax: Vec::new(),
            }
        }
        RL::Deconv { k, stride, padding, act } => {
            let (c, h, w) = x.sh.spatial().expect("harness: deconv input not spatial");
            assert_eq!(k[0].len(), c, "harness: deconv channels");
            let (kh, kw) = (k[0][0].len(), k[0][0][0].len());
            let oh = (h - 1) * stride.0 + kh - 2 * padding.0;
            let ow = (w - 1) * stride.1 + kw - 2 * padding.1;
            let mut pre = Vec::with_capacity(k.len() * oh * ow);
            // Gather form: y[f][a][b] = sum over (ch, i, ki) with i*s + ki - p == a (same for columns).
            for f in 0..k.len() {
                for a in 0..oh {
                    for b in 0..ow {
                        let mut s = S::c(0.0);
                        for ch in 0..c {
                            for ki in 0..kh {
                                let t = a + padding.0;
                                if t < ki || (t - ki) % stride.0 != 0 {
                                    continue;
                                }
                                let i = (t - ki) / stride.0;
                                if i >= h {
                                    continue;
                                }
                                for kj in 0..kw {
                                    let u = b + padding.1;
                                    if u < kj || (u - kj) % stride.1 != 0 {
                                        continue;
                                    }
                                    let j = (u - kj) / stride.1;
                                    if j >= w {
                                        continue;
                                    }
                                    s = s.add(x.d[idx3((c, h, w), ch, i, j)].mul(k[f][ch][ki][kj]));
                                }
                            }
                        }
                        pre.push(s);
                    }
                }
            }
            let kink = if act.kinked() { pre.iter().map(|p| p.v().abs()).fold(f64::INFINITY, f64::min) } else { f64::INFINITY };
            let post = act_apply(*act, &pre);
            let sh = Sh::Sp(k.len(), oh, ow);
            Step {
                pre: Val { sh, d: pre },
                post: Val { sh, d: post },
                kink,
                gap: f64::INFINITY,
                argmax: Vec::new(),
            }
        }
        RL::Pool { kernel, stride } => {
            let (c, h, w) = x.sh.spatial().expect("harness: pool input not spatial");
            let oh = (h - kernel.0) / stride.0 + 1;
            let ow = (w - kernel.1) / stride.1 + 1;
            let mut out = Vec::with_capacity(c * oh * ow);
            let mut argmax = Vec::with_capacity(c * oh * ow);
            let mut gap = f64::INFINITY;
            for ch in 0..c {
                for a in 0..oh {
                    for b in 0..ow {
                        let mut best: Option<(usize, f64)> = None;
                        let mut second = f64::NEG_INFINITY;
                        for i in 0..kernel.0 {
                            for j in 0..kernel.1 {
                                let p = idx3((c, h, w), ch, a * stride.0 + i, b * stride.1 + j);
                                let v = x.d[p].v();
                                if let Some((bp, bv)) = best {
                                    // a tie with a structurally identical element is no tie
                                    if v == bv && x.d[p].same_local_fn(&x.d[bp]) {
                                        continue;
                                    }
                                }
                                match best {
                                    None => best = Some((p, v)),
                                    Some((_, bv)) if v > bv => {
                                        second = bv;
                                        best = Some((p, v));
                                    }
                                    Some(_) => {
                                        if v > second {
                                            second = v;
                                        }
                                    }
                                }
                            }
                        }
                        let (p, bv) = best.unwrap();
                        if kernel.0 * kernel.1 > 1 {
                            gap = gap.min(bv - second);
                        }
                        out.push(x.d[p]);
                        argmax.push(p);
                    }
                }
            }
            let sh = Sh::Sp(c, oh, ow);
            Step {
                pre: Val { sh, d: out.clone() },
                post: Val { sh, d: out },
                kink: f64::INFINITY,
                gap,
                argmax,
            }
        }
        RL::Block { .. } => panic!("harness: layer_forward on a block"),
    }
}

/// `a (+) sources` for the configured accumulation.
pub fn combine<S: Sc>(acc: Acc, a: &Val<S>, sources: &[&Val<S>]) -> Val<S> {
    if sources.is_empty() {
        return a.clone();
    }
    for s in sources {
        assert_eq!(s.d.len(), a.d.len(), "harness: combine size mismatch");
    }
    let n = a.d.len();
    let d: Vec<S> = match acc {
        Acc::Add => (0..n).map(|i| sources.iter().fold(a.d[i], |x, s| x.add(s.d[i]))).collect(),
        Acc::Sub => (0..n).map(|i| sources.iter().fold(a.d[i], |x, s| x.sub(s.d[i]))).collect(),
        Acc::Mul => (0..n).map(|i| sources.iter().fold(a.d[i], |x, s| x.mul(s.d[i]))).collect(),
        Acc::Mean => (0..n)
            .map(|i| {
                let mut sum = S::c(0.0);
                for s in sources {
                    sum = sum.add(s.d[i]);
                }
                a.d[i].add(sum).div(S::c((sources.len() + 1) as f64))
            })
            .collect(),
        Acc::Overwrite => sources.last().unwrap().d.clone(),
    };
    Val { sh: a.sh, d }
}

/// Everything observed while evaluating a block.
#[derive(Clone, Debug)]
pub struct BlockTrace<S> {
    pub out: Val<S>,
    pub kink: f64,
    pub gap: f64,
    /// per unrolled layer
    pub steps: Vec<Step<S>>,
}

pub fn block_forward<S: Sc>(copies: &Vec<Vec<RL<S>>>, inskips: bool, outskips: bool, acc: Acc, x: &Val<S>) -> BlockTrace<S> {
    let mut kink = f64::INFINITY;
    let mut gap = f64::INFINITY;
    let mut steps = Vec::new();
    let mut outs: Vec<Val<S>> = Vec::new();
    let mut cur = x.clone();
    for (r, body) in copies.iter().enumerate() {
        if r > 0 && inskips {
            cur = combine(acc, &cur, &[x]);
        }
        for l in body.iter() {
            let st = layer_forward(l, &cur);
            kink = kink.min(st.kink);
            gap = gap.min(st.gap);
            cur = st.post.clone();
            steps.push(st);
        }
        outs.push(cur.clone());
    }
    let last = outs.pop().unwrap();
    let out = if outskips {
        let refs: Vec<&Val<S>> = outs.iter().collect();
        combine(acc, &last, &refs)
    } else {
        last
    };
    BlockTrace { out, kink, gap, steps }
}

#[derive(Clone, Debug)]
pub struct RNet<S> {
    pub cfg: NetCfg,
    pub layers: Vec<RL<S>>,
    pub shapes: Vec<(Sh, Sh, bool)>,
    pub raw_sources: bool,
}

#[derive(Clone, Debug)]
pub struct Trace<S> {
    /// Value passed on after every layer (flattened where a dense layer follows).
    pub outs: Vec<Val<S>>,
    pub steps: Vec<Option<Step<S>>>,
    pub blocks: Vec<Option<BlockTrace<S>>>,
    pub kink: f64,
    pub gap: f64,
    /// Input processed by every layer (after skip accumulation).
    pub inputs: Vec<Val<S>>,
}

impl<S: Sc> Trace<S> {
    pub fn output(&self) -> &Val<S> {
        self.outs.last().unwrap()
    }
}

fn lift_layer<S: Sc>(l: &LCfg, p: &P, lift: &mut dyn FnMut(usize, f32) -> S, copy: usize, base: &mut usize) -> RL<S> {
    // `lift(flat_index_within_layer_copy, value)`; `copy` is folded into the index by the caller.
    let _ = copy;
    match (l, p) {
        (LCfg::Dense { act, .. }, P::Dense { w, b }) => {
            let w2 = w
                .iter()
                .map(|r| {
                    r.iter()
                        .map(|x| {
                            let s = lift(*base, *x);
                            *base += 1;
                            s
                        })
                        .collect()
                })
                .collect();
            let b2 = b.as_ref().map(|b| {
                b.iter()
                    .map(|x| {
                        let s = lift(*base, *x);
                        *base += 1;
                        s
                    })
                    .collect()
            });
            RL::Dense { w: w2, b: b2, act: *act }
        }
        (LCfg::Conv { stride, padding, dilation, act, .. }, P::Kern(k)) => RL::Conv {
            k: lift_k(k, lift, base),
            stride: *stride,
            padding: *padding,
            dilation: *dilation,
            act: *act,
        },
        (LCfg::Deconv { stride, padding, act, .. }, P::Kern(k)) => RL::Deconv {
            k: lift_k(k, lift, base),
            stride: *stride,
            padding: *padding,
            act: *act,
        },
        (LCfg::Pool { kernel, stride }, P::None) => RL::Pool { kernel: *kernel, stride: *stride },
        _ => panic!("harness: lift_layer kind mismatch"),
    }
}

fn lift_k<S: Sc>(k: &Vec<Vec<Vec<Vec<f32>>>>, lift: &mut dyn FnMut(usize, f32) -> S, base: &mut usize) -> K4<S> {
    k.iter()
        .map(|f| {
            f.iter()
                .map(|c| {
                    c.iter()
                        .map(|r| {
                            r.iter()
                                .map(|x| {
                                    let s = lift(*base, *x);
                                    *base += 1;
                                    s
                                })
                                .collect()
                        })
                        .collect()
                })
                .collect()
        })
        .collect()
}

impl<S: Sc> RNet<S> {
    /// Builds the reference network. `lift(layer, copy, flat_index, value)` converts every
    /// parameter (copy = unrolled repetition inside a feedback block, else 0; the flat index
    /// counts the parameters of that layer copy in the order of `P::flat`).
    pub fn build(cfg: &NetCfg, params: &[P], lift: &mut dyn FnMut(usize, usize, usize, f32) -> S) -> RNet<S> {
        let shapes = cfg.shapes().expect("harness: invalid cfg for reference");
        let mut layers = Vec::new();
        for (li, (l, p)) in cfg.layers.iter().zip(params.iter()).enumerate() {
            match (l, p) {
                (LCfg::Feedback { body, loops, inskips, outskips, acc }, P::Block(ps)) => {
                    let mut copies = Vec::new();
                    for copy in 0..*loops {
                        let mut base = 0usize;
                        let mut one = Vec::new();
                        for (bl, bp) in body.iter().zip(ps.iter()) {
                            let mut f = |i: usize, v: f32| lift(li, copy, i, v);
                            one.push(lift_layer(bl, bp, &mut f, copy, &mut base));
                        }
                        copies.push(one);
                    }
                    layers.push(RL::Block {
                        copies,
                        inskips: *inskips,
                        outskips: *outskips,
                        acc: *acc,
                    });
                }
                _ => {
                    let mut base = 0usize;
                    let mut f = |i: usize, v: f32| lift(li, 0, i, v);
                    layers.push(lift_layer(l, p, &mut f, 0, &mut base));
                }
            }
        }
        RNet {
            cfg: cfg.clone(),
            layers,
            shapes,
            raw_sources: false,
        }
    }

    pub fn plain(cfg: &NetCfg, params: &[P]) -> RNet<S> {
        RNet::build(cfg, params, &mut |_, _, _, v| S::c(v as f64))
    }

    /// Applies layers `from..=to` plainly (no skip connections), as inside a loop iteration.
    fn range(&self, x: &Val<S>, from: usize, to: usize, kink: &mut f64, gap: &mut f64) -> Val<S> {
        let mut cur = x.clone();
        for i in from..=to {
            cur = cur.reshaped(self.shapes[i].0);
            cur = match &self.layers[i] {
                RL::Block { copies, inskips, outskips, acc } => {
                    let bt = block_forward(copies, *inskips, *outskips, *acc, &cur);
                    *kink = kink.min(bt.kink);
                    *gap = gap.min(bt.gap);
                    bt.out
                }
                l => {
                    let st = layer_forward(l, &cur);
                    *kink = kink.min(st.kink);
                    *gap = gap.min(st.gap);
                    st.post
                }
            };
        }
        cur
    }

    pub fn forward(&self, x: &Val<S>) -> Trace<S> {
        let n = self.layers.len();
        let mut outs: Vec<Val<S>> = Vec::with_capacity(n);
        let mut steps = Vec::with_capacity(n);
        let mut blocks = Vec::with_capacity(n);
        let mut inputs: Vec<Val<S>> = Vec::with_capacity(n);
        let mut kink = f64::INFINITY;
        let mut gap = f64::INFINITY;
        // fed[i] = the input that was fed to layer i (before any accumulation into it).
        let mut fed: Vec<Val<S>> = Vec::with_capacity(n);
        for i in 0..n {
            let ordinary = if i == 0 { x.clone() } else { outs[i - 1].clone() };
            fed.push(ordinary.clone());
            let mut cur = ordinary;
            for (from, to) in self.cfg.skips.iter() {
                if *to == i {
                    // "The input that was fed to layer `from`": for a source that is itself the
                    // target of another connection the statement is ambiguous between the raw
                    // and the accumulated input; `raw_sources` selects the reading.
                    let src = if self.raw_sources || *from == i { fed[*from].clone() } else { inputs[*from].clone() };
                    let src = src.reshaped(cur.sh);
                    cur = combine(self.cfg.skipacc, &cur, &[&src]);
                }
            }
            let cur = cur.reshaped(self.shapes[i].0);
            inputs.push(cur.clone());
            let mut out = match &self.layers[i] {
                RL::Block { copies, inskips, outskips, acc } => {
                    let bt = block_forward(copies, *inskips, *outskips, *acc, &cur);
                    kink = kink.min(bt.kink);
                    gap = gap.min(bt.gap);
                    let o = bt.out.clone();
                    blocks.push(Some(bt));
                    steps.push(None);
                    o
                }
                l => {
                    let st = layer_forward(l, &cur);
                    kink = kink.min(st.kink);
                    gap = gap.min(st.gap);
                    let o = st.post.clone();
                    steps.push(Some(st));
                    blocks.push(None);
                    o
                }
            };
            // Loop connection leaving this layer.
            for (outof, into, iters, inskips) in self.cfg.loops.iter() {
                if *outof == i {
                    let first = out.clone();
                    let mut later: Vec<Val<S>> = Vec::new();
                    let mut prev = first.clone();
                    for _ in 0..*iters {
                        let mut cur = prev.reshaped(self.shapes[*into].0);
                        if *inskips {
                            let a = inputs[*into].reshaped(cur.sh);
                            cur = combine(Acc::Add, &cur, &[&a]);
                        }
                        prev = self.range(&cur, *into, i, &mut kink, &mut gap);
                        later.push(prev.clone());
                    }
                    let refs: Vec<&Val<S>> = later.iter().collect();
                    out = combine(self.cfg.loopacc, &first, &refs);
                }
            }
            if self.shapes[i].2 {
                out = out.reshaped(out.sh.flat());
            }
            outs.push(out);
        }
        Trace {
            outs,
            steps,
            blocks,
            kink,
            gap,
            inputs,
        }
    }
}

// ---------------------------------------------------------------------------------------
// Objectives (documented formulas).

pub const OBJ_EPS: f64 = 1e-6;

fn clampc<S: Sc>(p: S, lo: f64, hi: f64) -> S {
    if p.v() < lo {
        S::c(lo)
    } else if p.v() > hi {
        S::c(hi)
    } else {
        p
    }
}

/// The documented loss of `pred` against `target`.
pub fn obj_loss<S: Sc>(obj: Obj, pred: &[S], target: &[f64]) -> S {
    let n = pred.len() as f64;
    let mut s = S::c(0.0);
    match obj {
        Obj::AE | Obj::MAE => {
            for (p, t) in pred.iter().zip(target.iter()) {
                s = s.add(S::c(*t).sub(*p).abs());
            }
            if obj == Obj::MAE {
                s = s.div(S::c(n));
            }
            s
        }
        Obj::MSE => {
            for (p, t) in pred.iter().zip(target.iter()) {
                let d = S::c(*t).sub(*p);
                s = s.add(d.mul(d).div(S::c(n)));
            }
            s
        }
        Obj::RMSE => {
            for (p, t) in pred.iter().zip(target.iter()) {
                let d = S::c(*t).sub(*p);
                s = s.add(d.mul(d));
            }
            s.div(S::c(n)).sqrt()
        }
        Obj::CE => {
            for (p, t) in pred.iter().zip(target.iter()) {
                let q = clampc(*p, OBJ_EPS as f32 as f64, (1.0f32 - 1e-6f32) as f64);
                s = s.add(S::c(*t).mul(q.ln()));
            }
            S::c(0.0).sub(s)
        }
        Obj::BCE => {
            for (p, t) in pred.iter().zip(target.iter()) {
                let q = clampc(*p, OBJ_EPS as f32 as f64, (1.0f32 - 1e-6f32) as f64);
                s = s.add(S::c(*t).mul(q.ln()).add(S::c(1.0 - *t).mul(S::c(1.0).sub(q).ln())));
            }
            S::c(0.0).sub(s)
        }
        Obj::KL => {
            for (p, t) in pred.iter().zip(target.iter()) {
                if *t == 0.0 {
                    continue; // 0 * ln(0 / p) := 0
                }
                let q = clampc(*p, OBJ_EPS as f32 as f64, (1.0f32 - 1e-6f32) as f64);
                s = s.add(S::c(*t).mul(S::c(*t).div(q).ln()));
            }
            s
        }
    }
}

/// The documented (unclamped) gradient.
pub fn obj_grad(obj: Obj, pred: &[f64], target: &[f64]) -> Vec<f64> {
    let n = pred.len() as f64;
    let lo = 1e-6f32 as f64;
    let hi = (1.0f32 - 1e-6f32) as f64;
    pred.iter()
        .zip(target.iter())
        .map(|(p, t)| match obj {
            Obj::AE | Obj::MAE => {
                if t == p {
                    0.0
                } else if t > p {
                    -1.0
                } else {
                    1.0
                }
            }
            Obj::MSE => -2.0 * (t - p) / n,
            Obj::RMSE => {
                if t == p {
                    0.0
                } else if t > p {
                    -1.0 / n
                } else {
                    1.0 / n
                }
            }
            Obj::CE => p - t,
            Obj::BCE => {
                let q = p.clamp(lo, hi);
                (q - t) / (q * (1.0 - q))
            }
            Obj::KL => -t / p.clamp(lo, hi),
        })
        .collect()
}
