//! Builds the real `neurons::network::Network` from a configuration, installs parameters through
//! the `verif` accessors, and converts tensors to/from flat vectors.

use crate::cfg::*;
use crate::core::guard;
use neurons::network::{Layer, Network};
use neurons::tensor::{Data, Shape, Tensor};
use neurons::{activation, feedback, objective, optimizer};

pub fn lib_shape(s: Sh) -> Shape {
    match s {
        Sh::Flat(n) => Shape::Single(n),
        Sh::Sp(c, h, w) => Shape::Triple(c, h, w),
    }
}

pub fn lib_act(a: Act) -> activation::Activation {
    match a {
        Act::Relu => activation::Activation::ReLU,
        Act::Leaky => activation::Activation::LeakyReLU,
        Act::Sigmoid => activation::Activation::Sigmoid,
        Act::Tanh => activation::Activation::Tanh,
        Act::Linear => activation::Activation::Linear,
        Act::Softmax => activation::Activation::Softmax,
    }
}

pub fn lib_acc(a: Acc) -> feedback::Accumulation {
    match a {
        Acc::Add => feedback::Accumulation::Add,
        Acc::Sub => feedback::Accumulation::Subtract,
        Acc::Mul => feedback::Accumulation::Multiply,
        Acc::Mean => feedback::Accumulation::Mean,
        Acc::Overwrite => feedback::Accumulation::Overwrite,
    }
}

pub fn lib_obj(o: Obj) -> objective::Objective {
    match o {
        Obj::AE => objective::Objective::AE,
        Obj::MAE => objective::Objective::MAE,
        Obj::MSE => objective::Objective::MSE,
        Obj::RMSE => objective::Objective::RMSE,
        Obj::CE => objective::Objective::CrossEntropy,
        Obj::BCE => objective::Objective::BinaryCrossEntropy,
        Obj::KL => objective::Objective::KLDivergence,
    }
}

/// Optimizer configuration (hyper-parameters as the library takes them).
#[derive(Clone, Debug)]
pub enum OptCfg {
    Sgd { lr: f32, decay: Option<f32> },
    Sgdm { lr: f32, momentum: f32, dampening: f32, decay: Option<f32> },
    Adam { lr: f32, b1: f32, b2: f32, eps: f32, decay: Option<f32> },
    AdamW { lr: f32, b1: f32, b2: f32, eps: f32, decay: f32 },
    Rmsprop { lr: f32, alpha: f32, eps: f32, decay: Option<f32>, momentum: Option<f32>, centered: bool },
}

impl OptCfg {
    pub fn name(&self) -> &'static str {
        match self {
            OptCfg::Sgd { .. } => "SGD",
            OptCfg::Sgdm { .. } => "SGDM",
            OptCfg::Adam { .. } => "Adam",
            OptCfg::AdamW { .. } => "AdamW",
            OptCfg::Rmsprop { .. } => "RMSprop",
        }
    }
    pub fn describe(&self) -> String {
        format!("{:?}", self)
    }
    pub fn build(&self) -> optimizer::Optimizer {
        match self {
            OptCfg::Sgd { lr, decay } => optimizer::SGD::create(*lr, *decay),
            OptCfg::Sgdm { lr, momentum, dampening, decay } => optimizer::SGDM::create(*lr, *momentum, *dampening, *decay),
            OptCfg::Adam { lr, b1, b2, eps, decay } => optimizer::Adam::create(*lr, *b1, *b2, *eps, *decay),
            OptCfg::AdamW { lr, b1, b2, eps, decay } => optimizer::AdamW::create(*lr, *b1, *b2, *eps, *decay),
            OptCfg::Rmsprop { lr, alpha, eps, decay, momentum, centered } => optimizer::RMSprop::create(*lr, *alpha, *eps, *decay, *momentum, *centered),
        }
    }
}

pub fn tensor_of(sh: Sh, data: &[f32]) -> Tensor {
    assert_eq!(sh.count(), data.len(), "harness: tensor_of size mismatch");
    match sh {
        Sh::Flat(_) => Tensor::single(data.to_vec()),
        Sh::Sp(c, h, w) => {
            let mut it = data.iter();
            Tensor::triple((0..c).map(|_| (0..h).map(|_| (0..w).map(|_| *it.next().unwrap()).collect()).collect()).collect())
        }
    }
}

/// Row-major contents of any float tensor.
pub fn flat(t: &Tensor) -> Vec<f32> {
    let mut out = Vec::new();
    flat_into(t, &mut out);
    out
}

fn flat_into(t: &Tensor, out: &mut Vec<f32>) {
    match &t.data {
        Data::Single(v) => out.extend_from_slice(v),
        Data::Double(v) => v.iter().for_each(|r| out.extend_from_slice(r)),
        Data::Triple(v) => v.iter().for_each(|c| c.iter().for_each(|r| out.extend_from_slice(r))),
        Data::Quadruple(v) => v.iter().for_each(|f| f.iter().for_each(|c| c.iter().for_each(|r| out.extend_from_slice(r)))),
        Data::Nested(ts) => ts.iter().for_each(|t| flat_into(t, out)),
        Data::NestedOptional(ts) => ts.iter().for_each(|t| {
            if let Some(t) = t {
                flat_into(t, out)
            }
        }),
        Data::Quintuple(_) => {}
    }
}

/// The actual nesting lengths of the data (None if ragged), to compare with `tensor.shape`.
pub fn nesting(t: &Tensor) -> Option<Vec<usize>> {
    match &t.data {
        Data::Single(v) => Some(vec![v.len()]),
        Data::Double(v) => {
            let c = v.first().map(|r| r.len()).unwrap_or(0);
            if v.iter().all(|r| r.len() == c) {
                Some(vec![v.len(), c])
            } else {
                None
            }
        }
        Data::Triple(v) => {
            let h = v.first().map(|c| c.len()).unwrap_or(0);
            let w = v.first().and_then(|c| c.first()).map(|r| r.len()).unwrap_or(0);
            if v.iter().all(|c| c.len() == h && c.iter().all(|r| r.len() == w)) {
                Some(vec![v.len(), h, w])
            } else {
                None
            }
        }
        Data::Quadruple(v) => {
            let c = v.first().map(|f| f.len()).unwrap_or(0);
            let h = v.first().and_then(|f| f.first()).map(|c| c.len()).unwrap_or(0);
            let w = v.first().and_then(|f| f.first()).and_then(|c| c.first()).map(|r| r.len()).unwrap_or(0);
            if v.iter().all(|f| f.len() == c && f.iter().all(|ch| ch.len() == h && ch.iter().all(|r| r.len() == w))) {
                Some(vec![v.len(), c, h, w])
            } else {
                None
            }
        }
        _ => None,
    }
}

pub fn shape_dims(s: &Shape) -> Vec<usize> {
    match s {
        Shape::Single(a) => vec![*a],
        Shape::Double(a, b) => vec![*a, *b],
        Shape::Triple(a, b, c) => vec![*a, *b, *c],
        Shape::Quadruple(a, b, c, d) => vec![*a, *b, *c, *d],
        Shape::Quintuple(a, b, c, d, e) => vec![*a, *b, *c, *d, *e],
        Shape::Nested(a) => vec![*a],
    }
}

/// `tensor.shape` agrees with the data it carries.
pub fn shape_consistent(t: &Tensor) -> bool {
    match nesting(t) {
        Some(n) => n == shape_dims(&t.shape),
        None => false,
    }
}

fn fb_layer(l: &LCfg) -> feedback::Layer {
    match l {
        LCfg::Dense { n, act, bias, dropout } => feedback::Layer::Dense(*n, lib_act(*act), *bias, *dropout),
        LCfg::Conv { filters, kernel, stride, padding, dilation, act, dropout } => feedback::Layer::Convolution(*filters, lib_act(*act), *kernel, *stride, *padding, *dilation, *dropout),
        LCfg::Deconv { filters, kernel, stride, padding, act, dropout } => feedback::Layer::Deconvolution(*filters, lib_act(*act), *kernel, *stride, *padding, *dropout),
        LCfg::Pool { kernel, stride } => feedback::Layer::Maxpool(*kernel, *stride),
        LCfg::Feedback { .. } => panic!("harness: nested feedback"),
    }
}

/// Appends one layer to the network through the public API (may panic inside the library).
pub fn add_layer(net: &mut Network, l: &LCfg) {
    match l {
        LCfg::Dense { n, act, bias, dropout } => net.dense(*n, lib_act(*act), *bias, *dropout),
        LCfg::Conv { filters, kernel, stride, padding, dilation, act, dropout } => net.convolution(*filters, *kernel, *stride, *padding, *dilation, lib_act(*act), *dropout),
        LCfg::Deconv { filters, kernel, stride, padding, act, dropout } => net.deconvolution(*filters, *kernel, *stride, *padding, lib_act(*act), *dropout),
        LCfg::Pool { kernel, stride } => net.maxpool(*kernel, *stride),
        LCfg::Feedback { body, loops, inskips, outskips, acc } => net.feedback(body.iter().map(fb_layer).collect(), *loops, *inskips, *outskips, lib_acc(*acc)),
    }
}

fn kernel_tensors(k: &Vec<Vec<Vec<Vec<f32>>>>) -> Vec<Tensor> {
    k.iter().map(|f| Tensor::triple(f.clone())).collect()
}

fn set_layer(layer: &mut Layer, p: &P) {
    match (layer, p) {
        (Layer::Dense(d), P::Dense { w, b }) => {
            d.verif_set_weights(Tensor::double(w.clone()));
            d.verif_set_bias(b.as_ref().map(|b| Tensor::single(b.clone())));
        }
        (Layer::Convolution(c), P::Kern(k)) => c.verif_set_kernels(kernel_tensors(k)),
        (Layer::Deconvolution(c), P::Kern(k)) => c.verif_set_kernels(kernel_tensors(k)),
        (Layer::Maxpool(_), P::None) => {}
        (Layer::Feedback(block), P::Block(ps)) => {
            let n = ps.len();
            for (i, inner) in block.layers.iter_mut().enumerate() {
                set_layer(inner, &ps[i % n]);
            }
        }
        _ => panic!("harness: parameter kind does not match layer kind"),
    }
}

pub fn set_params(net: &mut Network, params: &[P]) {
    assert_eq!(net.layers.len(), params.len(), "harness: params/layers mismatch");
    for (l, p) in net.layers.iter_mut().zip(params.iter()) {
        set_layer(l, p);
    }
}

fn get_layer(layer: &Layer, names: &str, out: &mut Vec<(String, Vec<f32>)>) {
    match layer {
        Layer::Dense(d) => {
            out.push((format!("{}.weights", names), flat(d.verif_weights())));
            if let Some(b) = d.verif_bias() {
                out.push((format!("{}.bias", names), flat(b)));
            }
        }
        Layer::Convolution(c) => {
            for (f, k) in c.verif_kernels().iter().enumerate() {
                out.push((format!("{}.kernel{}", names, f), flat(k)));
            }
        }
        Layer::Deconvolution(c) => {
            for (f, k) in c.verif_kernels().iter().enumerate() {
                out.push((format!("{}.kernel{}", names, f), flat(k)));
            }
        }
        Layer::Maxpool(_) => {}
        Layer::Feedback(block) => {
            for (i, inner) in block.layers.iter().enumerate() {
                get_layer(inner, &format!("{}.{}", names, i), out);
            }
        }
    }
}

/// Every parameter tensor of the network, named, flattened.
pub fn get_params(net: &Network) -> Vec<(String, Vec<f32>)> {
    let mut out = Vec::new();
    for (i, l) in net.layers.iter().enumerate() {
        get_layer(l, &format!("L{}", i), &mut out);
    }
    out
}

/// Builds the network through the public API and installs the given parameters.
/// `Err` carries the library's panic message.
pub fn build(cfg: &NetCfg, params: Option<&[P]>) -> Result<Network, String> {
    guard(|| {
        let mut net = Network::new(lib_shape(cfg.input));
        // two ways to the same network: in every fourth configuration the top-level dense /
        // convolution / deconvolution layers are first added with another activation and
        // receive the configured one through `Network::set_activation` afterwards
        let h0 = crate::rng::fnv(&cfg.describe());
        let via_set_activation = (h0 / 25) % 4 == 0;
        let mut later: Vec<(usize, Act)> = Vec::new();
        for (i, l) in cfg.layers.iter().enumerate() {
            match (via_set_activation, l.act()) {
                (true, Some(real)) => {
                    let mut decoy = ALL_ACTS[((h0 / 100) as usize + i) % ALL_ACTS.len()];
                    if decoy == real {
                        decoy = if real == Act::Tanh { Act::Relu } else { Act::Tanh };
                    }
                    let mut l2 = l.clone();
                    match &mut l2 {
                        LCfg::Dense { act, .. } | LCfg::Conv { act, .. } | LCfg::Deconv { act, .. } => *act = decoy,
                        _ => {}
                    }
                    add_layer(&mut net, &l2);
                    later.push((i, real));
                }
                _ => add_layer(&mut net, l),
            }
        }
        for (i, real) in later {
            net.set_activation(i, lib_act(real));
        }
        // the accumulation may be configured before or after the connections are made
        let late = (cfg.layers.len() + cfg.skips.len() + cfg.loops.len()) % 2 == 1;
        // a setting that concerns nothing in this network (the skip accumulation without skip
        // connections, the loop accumulation without loop connections) must not matter: it is
        // set to a value derived from the configuration instead of being left at its default
        let h = crate::rng::fnv(&cfg.describe());
        let all = [Acc::Add, Acc::Sub, Acc::Mul, Acc::Mean, Acc::Overwrite];
        let mut cfg = cfg.clone();
        if cfg.skips.is_empty() && !cfg.keep_default_accumulations {
            cfg.skipacc = all[(h % 5) as usize];
        }
        if cfg.loops.is_empty() && !cfg.keep_default_accumulations {
            cfg.loopacc = all[((h / 5) % 5) as usize];
        }
        let cfg = &cfg;
        if !late {
            net.set_accumulation(lib_acc(cfg.skipacc), lib_acc(cfg.loopacc));
        }
        for (from, to) in cfg.skips.iter() {
            net.connect(*from, *to);
        }
        for (outof, into, iters, inskips) in cfg.loops.iter() {
            let scale: std::sync::Arc<dyn Fn(f32) -> f32 + Send + Sync> = match cfg.loopscale {
                1 => std::sync::Arc::new(|_| 1.0),
                2 => std::sync::Arc::new(|x| 1.0 / x.sqrt()),
                3 => std::sync::Arc::new(|x| x),
                _ => std::sync::Arc::new(|x| 1.0 / x),
            };
            net.loopback(*outof, *into, *iters, scale, *inskips);
        }
        if late {
            net.set_accumulation(lib_acc(cfg.skipacc), lib_acc(cfg.loopacc));
        }
        if let Some(p) = params {
            set_params(&mut net, p);
        }
        net
    })
}

pub fn bits_eq(a: &[f32], b: &[f32]) -> bool {
    a.len() == b.len() && a.iter().zip(b.iter()).all(|(x, y)| x.to_bits() == y.to_bits() || (x.is_nan() && y.is_nan()))
}

/// Reads the current parameters of the network back into the structure of `template`
/// (for feedback blocks the first unrolled copy is taken; the copies are tied).
pub fn read_params(net: &Network, cfg: &NetCfg, template: &[P]) -> Vec<P> {
    let got = get_params(net);
    let mut flatv: Vec<f32> = Vec::new();
    for (_, v) in got.iter() {
        flatv.extend(v);
    }
    let mut ps = template.to_vec();
    let mut pos = 0;
    for (li, p) in ps.iter_mut().enumerate() {
        let copies = match &cfg.layers[li] {
            LCfg::Feedback { loops, .. } => *loops,
            _ => 1,
        };
        let n = p.count();
        p.set_flat(&flatv[pos..pos + n]);
        pos += n * copies;
    }
    ps
}
