//! Framework shared by all monitors: case outcomes, the parallel runner, evidence files,
//! known findings, replay files, panic guards.

use crate::json::J;
use crate::rng::fnv;
use std::collections::{BTreeMap, BTreeSet, HashSet};
use std::sync::atomic::{AtomicUsize, Ordering};
use std::sync::Mutex;

#[derive(Clone, Copy, PartialEq, Eq, Debug)]
pub enum Tier {
    Quick,
    Thorough,
}

impl Tier {
    pub fn name(&self) -> &'static str {
        match self {
            Tier::Quick => "quick",
            Tier::Thorough => "thorough",
        }
    }
    pub fn pick(&self, quick: u64, thorough: u64) -> u64 {
        match self {
            Tier::Quick => quick,
            Tier::Thorough => thorough,
        }
    }
}

/// One observed violation of the property.
#[derive(Clone, Debug)]
pub struct Viol {
    /// Exact signature used to match against open known findings.
    pub sig: String,
    pub what: String,
    pub detail: J,
}

impl Viol {
    pub fn new(sig: &str, what: String) -> Viol {
        Viol {
            sig: sig.to_string(),
            what,
            detail: J::Null,
        }
    }
    pub fn with(mut self, detail: J) -> Viol {
        self.detail = detail;
        self
    }
}

/// What one case observed.
#[derive(Default)]
pub struct Out {
    /// Descriptor of the case; distinct non-trivial cases are counted by it.
    pub key: String,
    pub nontrivial: bool,
    /// Executions this case stands for (chunked sweeps report the chunk size).
    pub evals: u64,
    /// For chunked sweeps: number of distinct non-trivial inputs inside the chunk.
    pub distinct: Option<u64>,
    pub viols: Vec<Viol>,
    pub sample: Option<J>,
    pub counts: Vec<(String, u64)>,
    pub sets: Vec<(String, String)>,
    pub inconclusive: Option<String>,
}

impl Out {
    pub fn new(key: String) -> Out {
        Out {
            key,
            nontrivial: true,
            evals: 1,
            ..Default::default()
        }
    }
    pub fn count(&mut self, name: &str, n: u64) {
        if let Some(e) = self.counts.iter_mut().find(|(k, _)| k == name) {
            e.1 += n;
        } else {
            self.counts.push((name.to_string(), n));
        }
    }
    pub fn cover(&mut self, set: &str, element: String) {
        self.sets.push((set.to_string(), element));
    }
    pub fn viol(&mut self, sig: &str, what: String, detail: J) {
        if self.viols.len() < 8 {
            self.viols.push(Viol::new(sig, what).with(detail));
        } else {
            self.count("violations_not_listed_individually", 1);
        }
    }
}

/// Aggregated observations of a whole run.
#[derive(Default)]
pub struct Agg {
    pub evaluations: u64,
    pub distinct: HashSet<u64>,
    pub distinct_extra: u64,
    pub counts: BTreeMap<String, u64>,
    pub sets: BTreeMap<String, BTreeSet<String>>,
    pub samples: BTreeMap<(usize, u64), J>,
    pub viols: Vec<(String, u64, Viol)>, // gen, idx, violation
    pub viol_total: u64,
    pub inconclusive: Vec<String>,
    pub extra: Vec<(String, J)>,
}

impl Agg {
    fn absorb(&mut self, gi: usize, gen: &str, idx: u64, out: Out) {
        self.evaluations += out.evals;
        if out.nontrivial {
            if let Some(d) = out.distinct {
                self.distinct_extra += d;
            } else {
                let key = if out.key.is_empty() {
                    format!("{}#{}", gen, idx)
                } else {
                    out.key.clone()
                };
                self.distinct.insert(fnv(&key));
            }
        }
        for (k, n) in out.counts {
            *self.counts.entry(k).or_insert(0) += n;
        }
        for (s, e) in out.sets {
            let set = self.sets.entry(s).or_default();
            if set.len() < 200_000 {
                set.insert(e);
            }
        }
        if let Some(s) = out.sample {
            if idx < 2 || self.samples.len() < 4 {
                self.samples.insert((gi, idx), s);
                while self.samples.len() > 8 {
                    let last = *self.samples.keys().next_back().unwrap();
                    self.samples.remove(&last);
                }
            }
        }
        if let Some(r) = out.inconclusive {
            if self.inconclusive.len() < 20 {
                self.inconclusive.push(format!("{}#{}: {}", gen, idx, r));
            }
        }
        for v in out.viols {
            self.viol_total += 1;
            if self.viols.len() < 5000 {
                self.viols.push((gen.to_string(), idx, v));
            }
        }
    }
    pub fn set_size(&self, name: &str) -> usize {
        self.sets.get(name).map(|s| s.len()).unwrap_or(0)
    }
    pub fn count(&self, name: &str) -> u64 {
        *self.counts.get(name).unwrap_or(&0)
    }
    pub fn require(&mut self, ok: bool, why: String) {
        if !ok {
            self.inconclusive.push(why);
        }
    }
}

pub trait Monitor: Sync {
    fn id(&self) -> &'static str;
    /// Generators (name, number of cases) for the tier. Names are stable: replay files use them.
    fn gens(&self, tier: Tier) -> Vec<(&'static str, u64)>;
    fn run(&self, gen: &str, seed: u64, idx: u64, tier: Tier) -> Out;
    fn rule(&self) -> &'static str;
    fn assumptions(&self) -> Vec<&'static str>;
    fn workers(&self) -> usize {
        16
    }
    /// Extra legs (e.g. Miri) and coverage floors; may push to `agg.inconclusive` / `agg.viols`.
    fn finish(&self, _tier: Tier, _seed: u64, _agg: &mut Agg) {}
}

/// Runs `f`, converting a panic into its message.
pub fn guard<T>(f: impl FnOnce() -> T) -> Result<T, String> {
    match std::panic::catch_unwind(std::panic::AssertUnwindSafe(f)) {
        Ok(v) => Ok(v),
        Err(p) => Err(panic_message(&p)),
    }
}

pub fn panic_message(p: &Box<dyn std::any::Any + Send>) -> String {
    if let Some(s) = p.downcast_ref::<&str>() {
        s.to_string()
    } else if let Some(s) = p.downcast_ref::<String>() {
        s.clone()
    } else {
        "<non-string panic payload>".to_string()
    }
}

pub fn short(s: &str, n: usize) -> String {
    let one: String = s.chars().map(|c| if c == '\n' { ' ' } else { c }).collect();
    if one.chars().count() > n {
        let t: String = one.chars().take(n).collect();
        format!("{}…", t)
    } else {
        one
    }
}

pub struct Finding {
    pub property: String,
    pub status: String,
    pub signature: String,
    pub what: String,
}

pub fn load_findings(path: &str) -> Result<Vec<Finding>, String> {
    let text = match std::fs::read_to_string(path) {
        Ok(t) => t,
        Err(_) => return Ok(Vec::new()),
    };
    let j = J::parse(&text).map_err(|e| format!("{}: {}", path, e))?;
    let mut out = Vec::new();
    if let Some(J::Arr(a)) = j.get("findings") {
        for f in a {
            out.push(Finding {
                property: f.get("property").and_then(|x| x.as_str()).unwrap_or("").to_string(),
                status: f.get("status").and_then(|x| x.as_str()).unwrap_or("").to_string(),
                signature: f.get("signature").and_then(|x| x.as_str()).unwrap_or("").to_string(),
                what: f.get("what").and_then(|x| x.as_str()).unwrap_or("").to_string(),
            });
        }
    }
    Ok(out)
}

pub fn run_all(m: &dyn Monitor, tier: Tier, seed: u64) -> Agg {
    let gens = m.gens(tier);
    let mut cases: Vec<(usize, u64)> = Vec::new();
    // NV_SAMPLE=k (reach audit under coverage instrumentation only, see coverage.sh): every
    // k-th case of the larger generators. Never set by a registered command.
    let sample: u64 = std::env::var("NV_SAMPLE").ok().and_then(|s| s.trim().parse().ok()).unwrap_or(1).max(1);
    for (gi, (_, n)) in gens.iter().enumerate() {
        let step = if *n > 1000 { sample } else { 1 };
        for i in (0..*n).step_by(step as usize) {
            cases.push((gi, i));
        }
    }
    let next = AtomicUsize::new(0);
    let agg = Mutex::new(Agg::default());
    let workers = m.workers().max(1);
    std::thread::scope(|s| {
        for _ in 0..workers {
            s.spawn(|| {
                let mut local = Agg::default();
                loop {
                    let k = next.fetch_add(1, Ordering::Relaxed);
                    if k >= cases.len() {
                        break;
                    }
                    let (gi, idx) = cases[k];
                    let gen = gens[gi].0;
                    let out = match guard(|| m.run(gen, seed, idx, tier)) {
                        Ok(o) => o,
                        Err(msg) => {
                            let mut o = Out::new(String::new());
                            o.nontrivial = false;
                            o.inconclusive = Some(format!("harness panic: {}", short(&msg, 300)));
                            o
                        }
                    };
                    local.absorb(gi, gen, idx, out);
                }
                let mut g = agg.lock().unwrap();
                g.evaluations += local.evaluations;
                g.distinct.extend(local.distinct);
                g.distinct_extra += local.distinct_extra;
                for (k, n) in local.counts {
                    *g.counts.entry(k).or_insert(0) += n;
                }
                for (k, s) in local.sets {
                    g.sets.entry(k).or_default().extend(s);
                }
                for (k, s) in local.samples {
                    g.samples.insert(k, s);
                }
                g.viols.extend(local.viols);
                g.viol_total += local.viol_total;
                g.inconclusive.extend(local.inconclusive);
            });
        }
    });
    let mut agg = agg.into_inner().unwrap();
    agg.viols.sort_by(|a, b| (a.0.as_str(), a.1).cmp(&(b.0.as_str(), b.1)));
    m.finish(tier, seed, &mut agg);
    agg
}

pub struct Verdict {
    pub lines: Vec<String>,
    pub code: i32,
    pub new_violations: u64,
    pub known_seen: BTreeMap<String, u64>,
}

/// Classifies violations against the open known findings, writes replay files for new ones.
pub fn judge(m: &dyn Monitor, tier: Tier, seed: u64, agg: &Agg, verif_dir: &str) -> Verdict {
    let mut lines = Vec::new();
    let findings = match load_findings(&format!("{}/known_findings.json", verif_dir)) {
        Ok(f) => f,
        Err(e) => {
            lines.push(format!("INCONCLUSIVE property={} reason=known_findings.json unreadable: {}", m.id(), e));
            return Verdict {
                lines,
                code: 2,
                new_violations: 0,
                known_seen: BTreeMap::new(),
            };
        }
    };
    let open: Vec<&Finding> = findings
        .iter()
        .filter(|f| f.status == "open" && f.property == m.id())
        .collect();
    let mut known_seen: BTreeMap<String, u64> = BTreeMap::new();
    let mut new_count = 0u64;
    let mut printed = 0;
    let mut per_sig: BTreeMap<String, u64> = BTreeMap::new();
    let _ = std::fs::create_dir_all(format!("{}/replays", verif_dir));
    for (gen, idx, v) in agg.viols.iter() {
        if open.iter().any(|f| f.signature == v.sig) {
            *known_seen.entry(v.sig.clone()).or_insert(0) += 1;
            continue;
        }
        new_count += 1;
        let per = per_sig.entry(v.sig.clone()).or_insert(0u64);
        *per += 1;
        if printed < 30 && *per <= 3 {
            printed += 1;
            let path = format!("{}/replays/{}-{}-{}-{}.json", verif_dir, m.id(), gen, seed, idx);
            let j = J::obj()
                .set("property", J::s(m.id()))
                .set("gen", J::s(gen))
                .set("seed", J::Int(seed as i64))
                .set("idx", J::Int(*idx as i64))
                .set("tier", J::s(tier.name()))
                .set("signature", J::s(&v.sig))
                .set("what", J::s(&v.what))
                .set("detail", v.detail.clone());
            let _ = std::fs::write(&path, j.pretty());
            lines.push(format!("VIOLATION property={} replay={}", m.id(), path));
            lines.push(format!("  [{}] {}", v.sig, short(&v.what, 400)));
        }
    }
    if agg.viol_total > agg.viols.len() as u64 {
        new_count += agg.viol_total - agg.viols.len() as u64;
    }
    if new_count > printed as u64 {
        lines.push(format!("  … {} further violations not listed individually; by signature:", new_count - printed as u64));
        for (sig, n) in per_sig.iter() {
            lines.push(format!("    {} x [{}]", n, sig));
        }
    }
    for f in open.iter() {
        if let Some(n) = known_seen.get(&f.signature) {
            lines.push(format!("KNOWN-FINDING: property={} {} [signature {}; {} observations this run]", m.id(), f.what, f.signature, n));
        } else {
            lines.push(format!("KNOWN-FINDING: property={} {} [signature {}; not re-observed by this run]", m.id(), f.what, f.signature));
        }
    }
    let code = if new_count > 0 {
        1
    } else if !agg.inconclusive.is_empty() {
        for r in agg.inconclusive.iter().take(5) {
            lines.push(format!("INCONCLUSIVE property={} reason={}", m.id(), short(r, 400)));
        }
        2
    } else {
        0
    };
    Verdict {
        lines,
        code,
        new_violations: new_count,
        known_seen,
    }
}

pub fn write_evidence(m: &dyn Monitor, tier: Tier, seed: u64, agg: &Agg, verdict: &Verdict, wall_s: f64, verif_dir: &str) {
    let mut cov = J::obj()
        .set("evaluations", J::Int(agg.evaluations as i64))
        .set("distinct_nontrivial", J::Int((agg.distinct.len() as u64 + agg.distinct_extra) as i64))
        .set("rule", J::s(m.rule()))
        .set("samples", J::Arr(agg.samples.values().cloned().collect()));
    let mut observed = J::obj();
    for (k, n) in agg.counts.iter() {
        observed.put(k, J::Int(*n as i64));
    }
    cov.put("observed_counts", observed);
    let mut sets = J::obj();
    for (k, s) in agg.sets.iter() {
        let mut e = J::obj().set("distinct", J::Int(s.len() as i64));
        let ex: Vec<J> = s.iter().take(6).map(|x| J::s(x)).collect();
        e.put("examples", J::Arr(ex));
        sets.put(k, e);
    }
    cov.put("observed_distinct", sets);
    for (k, v) in agg.extra.iter() {
        cov.put(k, v.clone());
    }
    let mut known = J::obj();
    for (k, n) in verdict.known_seen.iter() {
        known.put(k, J::Int(*n as i64));
    }
    cov.put("known_findings_observed", known);
    cov.put(
        "verdict",
        J::s(match verdict.code {
            0 => "held on everything observed",
            1 => "violated",
            _ => "inconclusive",
        }),
    );
    if !agg.inconclusive.is_empty() {
        cov.put("inconclusive_reasons", J::strs(&agg.inconclusive));
    }
    let j = J::obj()
        .set("property_id", J::s(m.id()))
        .set("tier", J::s(tier.name()))
        .set("seed", J::Int(seed as i64))
        .set("level", J::s("exploration"))
        .set("coverage", cov)
        .set("assumptions", J::Arr(m.assumptions().iter().map(|a| J::s(a)).collect()))
        .set("wall_s", J::Num((wall_s * 100.0).round() / 100.0))
        .set("violations", J::Int(verdict.new_violations as i64));
    let _ = std::fs::create_dir_all(format!("{}/evidence", verif_dir));
    let path = format!("{}/evidence/{}.json", verif_dir, m.id());
    let tmp = format!("{}.tmp", path);
    let _ = std::fs::write(&tmp, j.pretty());
    let _ = std::fs::rename(&tmp, &path);
}
