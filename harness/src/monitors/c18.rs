//! C18 — the random generator stays in range; shuffling is a safe permutation.
//!
//! The LCG state after one step ranges over [1, m-1] and `s -> 48271 s mod m` is a bijection,
//! so `create(s)` followed by one draw, for every s in [1, m-1], visits every generator state
//! exactly once (thorough tier: all of them).

use crate::core::*;
use crate::json::J;
use crate::lib_build::{nesting, shape_dims};
use crate::rng::Rng;
use neurons::random::Generator;
use neurons::tensor::{Shape, Tensor};

pub struct C18;

thread_local! {
    static REFUSED_FIRST: std::cell::Cell<u64> = std::cell::Cell::new(0);
}


const M: u64 = 2147483647; // 2^31 - 1
const CHUNK: u64 = 1 << 20;

const PANEL: [(f32, f32); 18] = [
    (0.0, 1.0),
    (-1.0, 1.0),
    (0.25, 0.25),
    (0.1, 0.7),
    (-1e-30, 1e-30),
    (-1e30, 1e30),
    (0.0, 3.0),
    (-0.3, 0.9),
    (1.0, 1.0000001),
    (-16777216.0, 16777217.0),
    (-3.0e38, 3.0e38),
    (f32::MIN, f32::MAX),
    // upper bounds that are zero or negative, intervals far from zero
    (-1.0, 0.0),
    (-3.0, -1.0),
    (-1000.0, -999.0),
    (-2.5, -0.0),
    (999.0, 1000.0),
    (-1e-38, 0.0),
];

fn check_generate(s: u64, out: &mut Out, per_sig: &mut Vec<String>) {
    for (lo, hi) in PANEL.iter() {
        let r = guard(|| Generator::create(s).generate(*lo, *hi));
        let bad = match &r {
            Ok(v) => !(v.is_finite() && *v >= *lo && *v <= *hi),
            Err(_) => true,
        };
        if bad {
            let sig = match &r {
                Ok(_) => "generate:out-of-range".to_string(),
                Err(m) => format!("generate:panic:{}", classify_panic(m)),
            };
            if !per_sig.contains(&sig) {
                per_sig.push(sig.clone());
                out.viol(
                    &sig,
                    format!("Generator::create({}).generate({:e}, {:e}) -> {:?}", s, lo, hi, r),
                    J::obj().set("seed", J::Int(s as i64)).set("min", J::f(*lo as f64)).set("max", J::f(*hi as f64)).set("result", J::s(&format!("{:?}", r))),
                );
            } else {
                out.count("further_violations_same_signature", 1);
            }
        }
    }
}

pub fn classify_panic(m: &str) -> &'static str {
    if m.contains("overflow") {
        "arithmetic-overflow"
    } else if m.contains("index out of bounds") || m.contains("out of range") {
        "index-out-of-bounds"
    } else {
        "other"
    }
}

/// Shuffles 0..len with the generator seeded by `s`; checks permutation. Returns violation text.
fn check_shuffle(s: u64, len: usize, buf: &mut Vec<usize>) -> Option<(String, String)> {
    buf.clear();
    buf.extend(0..len);
    let r = guard(|| {
        let mut g = Generator::create(s);
        g.shuffle(buf);
    });
    match r {
        Err(m) => Some((format!("shuffle:panic:{}", classify_panic(&m)), format!("Generator::create({}).shuffle(len {}) panicked: {}", s, len, short(&m, 160)))),
        Ok(()) => {
            if buf.len() != len {
                return Some(("shuffle:length-changed".into(), format!("seed {} len {} -> {}", s, len, buf.len())));
            }
            let mut seen = vec![false; len];
            for v in buf.iter() {
                if *v >= len || seen[*v] {
                    return Some(("shuffle:not-a-permutation".into(), format!("seed {} len {} -> {:?}", s, len, short(&format!("{:?}", buf), 200))));
                }
                seen[*v] = true;
            }
            None
        }
    }
}

/// shuffle on a vector with repeated entries (labels, bootstrap indices, a constant vector): the
/// result must hold the same multiset of elements and the call must not panic.
pub enum ChildResult {
    Ok,
    NotPermutation,
    Panic(String),
    Crashed(String),
    Unknown(String),
}

/// Body of the child process (`nv --child shuffle <seed> <len>`): shuffle 0..len on a thread with
/// the default stack size and print the verdict.
pub fn child_main(args: &[String]) -> i32 {
    let s: u64 = args.get(1).and_then(|a| a.parse().ok()).unwrap_or(1);
    let len: usize = args.get(2).and_then(|a| a.parse().ok()).unwrap_or(0);
    let h = std::thread::spawn(move || {
        guard(|| {
            let mut v: Vec<usize> = (0..len).collect();
            let mut g = Generator::create(s);
            g.shuffle(&mut v);
            // every index exactly once
            let mut seen = vec![false; len];
            let mut ok = v.len() == len;
            for x in v.iter() {
                if *x >= len || seen[*x] {
                    ok = false;
                    break;
                }
                seen[*x] = true;
            }
            ok
        })
    });
    match h.join() {
        Ok(Ok(true)) => println!("NV-CHILD OK"),
        Ok(Ok(false)) => println!("NV-CHILD NOTPERM"),
        Ok(Err(m)) => println!("NV-CHILD PANIC {}", m.replace('\n', " ")),
        Err(_) => println!("NV-CHILD PANIC thread died"),
    }
    0
}

fn child_shuffle(s: u64, len: usize) -> ChildResult {
    use std::os::unix::process::ExitStatusExt;
    let exe = match std::env::current_exe() {
        Ok(e) => e,
        Err(e) => return ChildResult::Unknown(format!("current_exe: {}", e)),
    };
    let o = match std::process::Command::new(exe).args(["--child", "shuffle", &s.to_string(), &len.to_string()]).output() {
        Ok(o) => o,
        Err(e) => return ChildResult::Unknown(format!("spawn: {}", e)),
    };
    let stdout = String::from_utf8_lossy(&o.stdout).to_string();
    let stderr = String::from_utf8_lossy(&o.stderr).to_string();
    if let Some(line) = stdout.lines().find(|l| l.starts_with("NV-CHILD ")) {
        let rest = &line["NV-CHILD ".len()..];
        if rest == "OK" {
            return ChildResult::Ok;
        }
        if rest == "NOTPERM" {
            return ChildResult::NotPermutation;
        }
        if let Some(m) = rest.strip_prefix("PANIC ") {
            return ChildResult::Panic(m.to_string());
        }
    }
    // no verdict line: the child died.  Stack exhaustion (SIGSEGV / SIGABRT with the runtime's
    // message) and aborts are the library's doing - the unchanged shuffle needs constant stack and
    // allocates nothing; a kill from outside (SIGKILL: memory pressure) decides nothing.
    let last = stderr.lines().rev().find(|l| !l.trim().is_empty()).unwrap_or("").to_string();
    match o.status.signal() {
        Some(sig) if sig == 6 || sig == 11 || sig == 7 || sig == 4 => ChildResult::Crashed(format!("signal {} ({})", sig, last)),
        Some(sig) => ChildResult::Unknown(format!("signal {} ({})", sig, last)),
        None => ChildResult::Unknown(format!("exit {:?} without a verdict ({})", o.status.code(), last)),
    }
}

fn check_shuffle_repeats(s: u64, len: usize) -> Option<(String, String)> {
    for kind in 0..6usize {
        // kinds 3..5: entries of any magnitude (hashes, identifiers, usize::MAX as a marker):
        // the elements are opaque to a shuffle
        let input: Vec<usize> = (0..len).map(|i| match kind {
            0 => i % 3,
            1 => 7,
            2 => (i * i) % (len / 2 + 1),
            3 => crate::rng::fnv(&format!("{}:{}", s, i)) as usize,
            4 => usize::MAX - (i % 5),
            _ => 1usize << (i % 64),
        }).collect();
        let mut v = input.clone();
        let r = guard(|| {
            let mut g = Generator::create(s);
            g.shuffle(&mut v);
            v
        });
        match r {
            Err(m) => return Some((format!("shuffle:repeats:panic:{}", classify_panic(&m)), format!("Generator::create({}).shuffle of {} elements with repeated values panicked: {}", s, len, short(&m, 160)))),
            Ok(v) => {
                let (mut a, mut b) = (input.clone(), v.clone());
                a.sort();
                b.sort();
                if a != b {
                    return Some(("shuffle:repeats:not-a-permutation".into(), format!("seed {} len {}: the shuffled vector does not hold the multiset of the input", s, len)));
                }
            }
        }
    }
    None
}

fn sweep(range: impl Iterator<Item = u64>, key: String) -> Out {
    let mut out = Out::new(key);
    let mut sigs: Vec<String> = Vec::new();
    let mut buf: Vec<usize> = Vec::new();
    let mut n = 0u64;
    let mut near_top = 0u64;
    for s in range {
        n += 1;
        check_generate(s, &mut out, &mut sigs);
        // the state reached by the first draw
        let unit = Generator::create(s).generate(0.0, 1.0);
        let lens: [usize; 2] = [1, 2 + (s % 5) as usize];
        for len in lens {
            if let Some((sig, what)) = check_shuffle(s, len, &mut buf) {
                if !sigs.contains(&sig) {
                    sigs.push(sig.clone());
                    out.viol(&sig, what, J::obj().set("seed", J::Int(s as i64)).set("len", J::Int(len as i64)));
                } else {
                    out.count("further_violations_same_signature", 1);
                }
            }
        }
        if unit >= 0.999999 {
            near_top += 1;
            for len in 1..=200usize {
                if let Some((sig, what)) = check_shuffle(s, len, &mut buf) {
                    if !sigs.contains(&sig) {
                        sigs.push(sig.clone());
                        out.viol(&sig, what, J::obj().set("seed", J::Int(s as i64)).set("len", J::Int(len as i64)));
                    } else {
                        out.count("further_violations_same_signature", 1);
                    }
                }
            }
        }
    }
    out.evals = n;
    out.distinct = Some(n);
    out.count("generator_states_visited", n);
    out.count("states_with_unit_draw_above_0.999999_swept_over_len_1_to_200", near_top);
    out
}

fn seed_class(rng: &mut Rng, idx: u64) -> (u64, &'static str) {
    match idx % 12 {
        0 => (0, "zero"),
        1 => (1, "one"),
        2 => (rng.range(2, 100000) as u64, "small"),
        3 => (M - 1 - rng.range(0, 70) as u64, "just-below-modulus"),
        4 => (M + rng.range(0, 70) as u64, "at-or-above-modulus"),
        5 => (M * rng.range(1, 1000) as u64, "multiple-of-modulus"),
        6 => ((1u64 << 32) - 1 + rng.range(0, 2) as u64, "around-2^32"),
        7 => (380_000_000_000_000 + rng.u64() % 1_000_000_000_000_000, "above-3.8e14"),
        8 => (u64::MAX - rng.range(0, 3) as u64, "u64-max"),
        9 => (1_700_000_000_000_000_000 + rng.u64() % 100_000_000_000_000_000, "nanosecond-timestamp"),
        10 => (rng.u64(), "uniform-u64"),
        _ => (rng.u64() >> rng.range(0, 63), "log-uniform"),
    }
}

/// The data of `t` is nested exactly as `dims` says (every list at level k has dims[k] entries;
/// below an empty list there is nothing to check).
fn nested_as(t: &Tensor, dims: &[usize]) -> bool {
    use neurons::tensor::Data;
    match (&t.data, dims.len()) {
        (Data::Single(v), 1) => v.len() == dims[0],
        (Data::Double(v), 2) => v.len() == dims[0] && v.iter().all(|r| r.len() == dims[1]),
        (Data::Triple(v), 3) => v.len() == dims[0] && v.iter().all(|c| c.len() == dims[1] && c.iter().all(|r| r.len() == dims[2])),
        (Data::Quadruple(v), 4) => v.len() == dims[0] && v.iter().all(|f| f.len() == dims[1] && f.iter().all(|c| c.len() == dims[2] && c.iter().all(|r| r.len() == dims[3]))),
        _ => false,
    }
}

impl Monitor for C18 {
    fn id(&self) -> &'static str {
        "C18"
    }
    fn gens(&self, tier: Tier) -> Vec<(&'static str, u64)> {
        match tier {
            Tier::Quick => vec![("states_quick", 2 + 64 * 16), ("seeds", 3600), ("clock", 200), ("tensor_random", 20_000), ("huge_shuffle", 8), ("huge_random", 6)],
            Tier::Thorough => vec![("states_all", (M - 1 + CHUNK - 1) / CHUNK), ("seeds", 60_000), ("clock", 1000), ("tensor_random", 200_000), ("huge_shuffle", 48), ("huge_random", 18)],
        }
    }
    fn rule(&self) -> &'static str {
        "states_*: one case per chunk of seeds s; create(s) + one draw visits generator state 48271*s mod m (a bijection on [1,m-1]); per state: generate() over an 18-pair (min,max) panel (incl. two intervals whose width overflows f32 and six with a zero or negative upper bound or far from zero) must be finite and in [min,max], shuffle(len 1) and shuffle(len 2..6) must return a permutation without panicking, states whose unit draw is >= 0.999999 are swept over every len 1..200; distinct = number of distinct states visited. seeds: seed classes (0, 1, small, around m, multiples of m, 2^32, >3.8e14, u64::MAX, timestamps) x lengths 0..200: no panic, permutation (index vectors; vectors with repeated entries and vectors with entries of any magnitude - 64-bit hashes, usize::MAX - k, powers of two up to 2^63: same multiset), one generator object shuffling twelve vectors of changing length in turn, purity (same seed twice; same seed while a second generator draws and shuffles in between). clock: Tensor::random's possible clock seeds (subsec_micros in [0,1e6)) replayed through Generator for 256 draws. tensor_random: Tensor::random itself for every rank (extents 1..6; in every eighth request one extent, at any position, is 0: the empty nesting must come back as requested); every third request follows a request for a shape the library refuses (rank 5 / nested), which must not disturb it. huge_random: Tensor::random for 12 ... 34 million entries (ranks 1..4, beyond 2^24 and 2^25 entries): requested shape and nesting, every entry in the interval. huge_shuffle: index vectors of 2^24 + {1, 3, 4, 8, 12, 20, 36, 100} entries (positions a single-precision index cannot name exactly) and of 40 000 ... 5 000 000 entries, each shuffled in a child process on a thread with the default 2 MiB stack: no panic, no crash of the process (stack exhaustion, abort), every index exactly once."
    }
    fn assumptions(&self) -> Vec<&'static str> {
        vec![
            "harness built with overflow-checks=on: arithmetic overflow panics as in debug builds (the stricter of the two profiles users run)",
            "Tensor::random's seed is the wall clock and cannot be injected; its seed space [0,1e6) is replayed through Generator::create instead",
        ]
    }
    fn run(&self, gen: &str, seed: u64, idx: u64, _tier: Tier) -> Out {
        match gen {
            "states_all" => {
                let lo = 1 + idx * CHUNK;
                let hi = (lo + CHUNK).min(M);
                sweep(lo..hi, format!("states {}..{}", lo, hi))
            }
            "states_quick" => match idx {
                0 => sweep(1..4097, "states 1..4097".into()),
                1 => sweep(M - 4096..M, "top 4096 states".into()),
                k => {
                    let k = k - 2;
                    let per = 1u64 << 16;
                    let off = seed % 511;
                    sweep((0..per).map(move |i| 1 + ((k * per + i) * 511 + off) % (M - 1)), format!("spread states block {} offset {}", k, off))
                }
            },
            "seeds" => {
                let mut rng = Rng::stream(seed, gen, idx);
                let (s, class) = seed_class(&mut rng, idx);
                let mut out = Out::new(format!("seed {} ({})", s, class));
                out.cover("seed_classes", class.to_string());
                let mut sigs = Vec::new();
                check_generate(s, &mut out, &mut sigs);
                let mut buf = Vec::new();
                let mut lens = 0u64;
                for len in 0..=200usize {
                    lens += 1;
                    if let Some((sig, what)) = check_shuffle(s, len, &mut buf) {
                        if !sigs.contains(&sig) {
                            sigs.push(sig.clone());
                            out.viol(&sig, what, J::obj().set("seed", J::s(&s.to_string())).set("len", J::Int(len as i64)));
                        }
                        continue;
                    }
                    // purity: the same seed gives the same permutation and the same draws
                    let first = buf.clone();
                    if check_shuffle(s, len, &mut buf).is_none() && buf != first {
                        out.viol("shuffle:not-pure", format!("seed {} len {}: two runs differ", s, len), J::Null);
                    }
                }
                for len in [0usize, 1, 2, 3, 5, 8, 20, 21, 33, 64, 200] {
                    if let Some((sig, what)) = check_shuffle_repeats(s, len) {
                        if !sigs.contains(&sig) {
                            sigs.push(sig.clone());
                            out.viol(&sig, what, J::obj().set("seed", J::s(&s.to_string())).set("len", J::Int(len as i64)));
                        }
                    }
                }
                out.count("shuffles_of_vectors_with_repeated_or_large_entries", 66);
                // ONE generator object shuffling vectors of changing length (training indices,
                // then validation indices, ...): every call must return a permutation
                {
                    let lens: Vec<usize> = (0..12).map(|_| *rng.pick(&[0usize, 1, 2, 3, 4, 7, 10, 33, 64, 65, 200])).collect();
                    let r = guard(|| {
                        let mut g = Generator::create(s);
                        for (k, len) in lens.iter().enumerate() {
                            let input: Vec<usize> = (0..*len).map(|i| i * 3 + k).collect();
                            let mut v = input.clone();
                            g.shuffle(&mut v);
                            let _ = g.generate(0.0, 1.0);
                            let mut sorted = v.clone();
                            sorted.sort();
                            if sorted != input {
                                return Some((k, *len));
                            }
                        }
                        None
                    });
                    out.count("generators_reused_for_shuffles_of_changing_length", 1);
                    match r {
                        Ok(None) => {}
                        Ok(Some((k, len))) => out.viol("shuffle:reused-generator:not-a-permutation", format!("seed {}: call {} of one generator over lengths {:?} (length {}) did not return a permutation", s, k + 1, lens, len), J::Null),
                        Err(m) => out.viol(&format!("shuffle:reused-generator:panic:{}", classify_panic(&m)), format!("seed {}: one generator shuffling vectors of lengths {:?} in turn panicked: {}", s, lens, short(&m, 160)), J::Null),
                    }
                }
                let pure = guard(|| {
                    let mut a = Generator::create(s);
                    let mut b = Generator::create(s);
                    (0..64).all(|_| a.generate(-1.0, 1.0).to_bits() == b.generate(-1.0, 1.0).to_bits())
                });
                match pure {
                    Ok(true) => {}
                    Ok(false) => out.viol("generate:not-pure", format!("seed {}: two generators with the same seed diverge", s), J::Null),
                    Err(m) => {
                        let sig = format!("generate:panic:{}", classify_panic(&m));
                        if !sigs.contains(&sig) {
                            out.viol(&sig, format!("seed {}: generate panicked: {}", s, short(&m, 160)), J::Null);
                        }
                    }
                }
                // the sequence depends on the seed only: not on other generators being used in
                // between (no state shared between instances)
                let s2 = s.wrapping_mul(0x9E3779B97F4A7C15).wrapping_add(idx) % 1_000_000_007;
                let alone = guard(|| {
                    let mut a = Generator::create(s);
                    (0..32).map(|_| a.generate(-1.0, 1.0).to_bits()).collect::<Vec<u32>>()
                });
                let mixed = guard(|| {
                    let mut a = Generator::create(s);
                    let mut c = Generator::create(s2);
                    let mut v: Vec<usize> = (0..7).collect();
                    (0..32)
                        .map(|i| {
                            let _ = c.generate(0.0, 5.0);
                            if i % 3 == 0 {
                                c.shuffle(&mut v);
                            }
                            a.generate(-1.0, 1.0).to_bits()
                        })
                        .collect::<Vec<u32>>()
                });
                if let (Ok(x), Ok(y)) = (&alone, &mixed) {
                    out.count("interleaved_generator_pairs", 1);
                    if x != y {
                        out.viol("generate:not-pure:interleaved", format!("seed {}: the draws change when another generator (seed {}) is used in between", s, s2), J::Null);
                    }
                }
                out.count("shuffle_lengths_tried", lens);
                out.sample = Some(J::obj().set("seed", J::s(&s.to_string())).set("class", J::s(class)).set("lengths", J::s("0..=200")));
                out
            }
            "clock" => {
                // all 1e6 clock seeds are split over the cases of this generator
                let cases = if _tier == Tier::Thorough { 1000 } else { 200 };
                let per = 1_000_000 / 1000; // 1000 seeds per case
                let mut out = Out::new(format!("clock block {}", idx));
                let mut n = 0u64;
                let mut sigs: Vec<String> = Vec::new();
                for i in 0..per {
                    let s = if _tier == Tier::Thorough { idx * per + i } else { (idx * per + i) * (1000 / cases) + seed % (1000 / cases) };
                    let s = s % 1_000_000;
                    n += 1;
                    let r = guard(|| {
                        let mut g = Generator::create(s);
                        let mut bad: Option<(usize, f32, f32, f32)> = None;
                        for d in 0..256usize {
                            let (lo, hi) = if d % 2 == 0 { (-1.0f32, 1.0f32) } else { (0.0f32, 1.0f32) };
                            let v = g.generate(lo, hi);
                            if !(v.is_finite() && v >= lo && v <= hi) && bad.is_none() {
                                bad = Some((d, lo, hi, v));
                            }
                        }
                        bad
                    });
                    let v = match r {
                        Ok(None) => None,
                        Ok(Some((d, lo, hi, v))) => Some(("generate:out-of-range".to_string(), format!("clock seed {} draw {} generate({},{}) = {}", s, d, lo, hi, v))),
                        Err(m) => Some((format!("generate:panic:{}", classify_panic(&m)), format!("clock seed {}: {}", s, short(&m, 160)))),
                    };
                    if let Some((sig, what)) = v {
                        if !sigs.contains(&sig) {
                            sigs.push(sig.clone());
                            out.viol(&sig, what, J::Null);
                        }
                    }
                }
                out.evals = n;
                out.distinct = Some(n);
                out.count("clock_seeds_replayed_256_draws_each", n);
                out
            }
            "huge_shuffle" => {
                // lengths beyond 2^24, where an index kept in single precision cannot name every
                // position (the last index may round up to the length)
                let m = 1usize << 24;
                let lens = [m + 4, 40_000, m + 8, 300_000, m + 1, 2_000_000, m + 12, 100_000, m + 3, 1_000_003, m + 100, 65_536, m + 20, 5_000_000, m + 36, 150_001];
                let len = lens[(idx as usize) % lens.len()];
                let s = 1 + idx * 7919 + seed;
                let mut out = Out::new(format!("shuffle of {} entries, seed {}", len, s));
                // run in a child process on a thread with the default 2 MiB stack: a crash that is not
                // a panic (stack exhaustion, abort) ends the child, not the monitor, and is a verdict
                out.count("shuffles_of_more_than_2^24_entries", if len > m { 1 } else { 0 });
                out.count("long_shuffles_in_a_child_process", 1);
                match child_shuffle(s, len) {
                    ChildResult::Ok => {}
                    ChildResult::NotPermutation => out.viol("shuffle:huge:not-a-permutation", format!("seed {}: shuffling 0..{} did not return a permutation", s, len), J::Null),
                    ChildResult::Panic(msg) => out.viol(&format!("shuffle:huge:panic:{}", classify_panic(&msg)), format!("seed {}: shuffle of {} entries panicked: {}", s, len, short(&msg, 160)), J::Null),
                    ChildResult::Crashed(how) => out.viol("shuffle:huge:crash", format!("seed {}: the process shuffling {} entries (thread with the default 2 MiB stack) died: {}", s, len, short(&how, 200)), J::Null),
                    ChildResult::Unknown(how) => {
                        out.count("long_shuffles_undecided", 1);
                        eprintln!("C18 huge_shuffle: child undecided: {}", how);
                    }
                }
                out
            }
            "huge_random" => {
                // requests of 12 ... 34 million entries (beyond 2^24 and 2^25): shape, nesting and
                // range as for the small ones; only extreme values are kept, not the tensor
                let shapes = [Shape::Double(3500, 3500), Shape::Single(20_000_003), Shape::Triple(3, 2100, 2100), Shape::Single((1 << 24) + 5), Shape::Quadruple(2, 2, 1800, 1801), Shape::Double(5800, 5900)];
                let shape = shapes[(idx as usize) % shapes.len()].clone();
                let dims = shape_dims(&shape);
                let (lo, hi) = [(-1.0f32, 1.0f32), (0.0, 1.0), (-3.5, -0.25)][((idx / 6) % 3) as usize];
                let mut out = Out::new(format!("random {:?} [{:e},{:e}]", dims, lo, hi));
                out.count("random_tensors_of_more_than_10_million_entries", 1);
                match guard(|| Tensor::random(shape.clone(), lo, hi)) {
                    Err(m) => out.viol(&format!("tensor_random:huge:panic:{}", classify_panic(&m)), format!("Tensor::random({:?},{},{}) panicked: {}", dims, lo, hi, short(&m, 160)), J::Null),
                    Ok(t) => {
                        if shape_dims(&t.shape) != dims || !nested_as(&t, &dims) {
                            out.viol("tensor_random:huge:shape", format!("requested {:?}, got shape {:?}", dims, shape_dims(&t.shape)), J::Null);
                        }
                        let vals = crate::lib_build::flat(&t);
                        drop(t);
                        if vals.len() != dims.iter().product::<usize>() {
                            out.viol("tensor_random:huge:shape", format!("requested {:?} = {} entries, got {}", dims, dims.iter().product::<usize>(), vals.len()), J::Null);
                        }
                        if let Some(v) = vals.iter().find(|v| !(v.is_finite() && **v >= lo && **v <= hi)) {
                            out.viol("tensor_random:huge:out-of-range", format!("Tensor::random({:?},{:e},{:e}) contains {}", dims, lo, hi, v), J::Null);
                        }
                        out.count("random_tensor_entries_checked", vals.len() as u64);
                    }
                }
                out
            }
            "tensor_random" => {
                let mut rng = Rng::stream(seed, gen, idx);
                let mut dims: Vec<usize> = (0..(1 + idx % 4)).map(|_| rng.range(1, 6)).collect();
                // every eighth case: an empty tensor - one extent (any position) is zero
                if idx % 8 == 5 {
                    let k = rng.range(0, dims.len() - 1);
                    dims[k] = 0;
                }
                // every third case: a request the library refuses (a shape it cannot initialise)
                // comes first on this thread - the valid request after it must be served as usual
                if idx % 3 == 1 {
                    let refused = guard(|| neurons::tensor::Tensor::random(if idx % 2 == 0 { neurons::tensor::Shape::Quintuple(1, 1, 1, 2, 2) } else { neurons::tensor::Shape::Nested(2) }, -1.0, 1.0));
                    if refused.is_err() {
                        REFUSED_FIRST.with(|c| c.set(c.get() + 1));
                    }
                }
                let (lo, hi) = match rng.range(0, 7) {
                    6 => (-2.0e38f32, 2.0e38f32),
                    7 => (f32::MIN, f32::MAX),
                    0 => (-1.0f32, 1.0f32),
                    1 => (0.0, 1.0),
                    2 => {
                        let a = rng.f32_in(-10.0, 10.0);
                        (a, a)
                    }
                    3 => {
                        let a = rng.f32_in(-5.0, 5.0);
                        (a, a + rng.f32_in(0.0, 3.0))
                    }
                    4 => (-1e-20, 1e-20),
                    _ => (-1e20, 1e20),
                };
                let shape = match dims.len() {
                    1 => Shape::Single(dims[0]),
                    2 => Shape::Double(dims[0], dims[1]),
                    3 => Shape::Triple(dims[0], dims[1], dims[2]),
                    _ => Shape::Quadruple(dims[0], dims[1], dims[2], dims[3]),
                };
                let mut out = Out::new(format!("random {:?} [{:e},{:e}]", dims, lo, hi));
                out.cover("ranks", dims.len().to_string());
                match guard(|| Tensor::random(shape.clone(), lo, hi)) {
                    Err(m) => out.viol(&format!("tensor_random:panic:{}", classify_panic(&m)), format!("Tensor::random({:?},{},{}) panicked: {}", dims, lo, hi, short(&m, 160)), J::Null),
                    Ok(t) => {
                        if dims.contains(&0) {
                            out.count("empty_random_tensors_requested", 1);
                        }
                        if shape_dims(&t.shape) != dims || !nested_as(&t, &dims) {
                            out.viol("tensor_random:shape", format!("requested {:?}, got shape {:?} nesting {:?}", dims, shape_dims(&t.shape), nesting(&t)), J::Null);
                        }
                        let vals = crate::lib_build::flat(&t);
                        if let Some(v) = vals.iter().find(|v| !(v.is_finite() && **v >= lo && **v <= hi)) {
                            out.viol("tensor_random:out-of-range", format!("Tensor::random({:?},{:e},{:e}) contains {}", dims, lo, hi, v), J::f32s(&vals));
                        }
                        out.count("random_tensor_entries_checked", vals.len() as u64);
                    }
                }
                if idx < 2 {
                    out.sample = Some(J::obj().set("shape", J::usizes(&dims)).set("min", J::f(lo as f64)).set("max", J::f(hi as f64)));
                }
                out
            }
            _ => panic!("unknown generator {}", gen),
        }
    }
    fn finish(&self, tier: Tier, _seed: u64, agg: &mut Agg) {
        let visited = agg.count("generator_states_visited");
        if tier == Tier::Thorough {
            agg.extra.push(("exhaustive".into(), J::Bool(visited == M - 1)));
            agg.require(visited == M - 1, format!("expected to visit all {} states, visited {}", M - 1, visited));
        } else {
            agg.extra.push(("exhaustive".into(), J::Bool(false)));
            agg.require(visited >= 60_000_000, format!("visited only {} states", visited));
        }
        let undecided = agg.count("long_shuffles_undecided");
        agg.require(undecided == 0, format!("{} long shuffles ended without a verdict (child process killed from outside or not started)", undecided));
        let classes = agg.set_size("seed_classes");
        agg.require(classes >= 12, format!("only {} seed classes exercised", classes));
    }
}
