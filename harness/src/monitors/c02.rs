//! C02 — each layer's forward pass computes its defining operator.

use crate::cfg::*;
use crate::core::*;
use crate::gen::*;
use crate::json::J;
use crate::lib_build::*;
use crate::refmodel::*;
use crate::rng::Rng;
use neurons::network::Layer;
use neurons::tensor::Tensor;

pub struct C02;

/// First element of `lib` outside the running error bound of the reference, if any.
pub fn cmp_e(lib: &[f32], r: &[E]) -> Option<(usize, f32, f64, f64)> {
    if lib.len() != r.len() {
        return Some((usize::MAX, lib.len() as f32, r.len() as f64, 0.0));
    }
    for i in 0..lib.len() {
        let tol = 8.0 * r[i].e + 1e-30;
        if !lib[i].is_finite() || (lib[i] as f64 - r[i].v).abs() > tol {
            return Some((i, lib[i], r[i].v, tol));
        }
    }
    None
}

pub fn sh_dims(sh: Sh) -> Vec<usize> {
    match sh {
        Sh::Flat(n) => vec![n],
        Sh::Sp(c, h, w) => vec![c, h, w],
    }
}

/// Calls the public `forward` of one layer; returns (pre, post).
pub fn layer_fwd(layer: &Layer, x: &Tensor) -> (Tensor, Tensor) {
    match layer {
        Layer::Dense(l) => l.forward(x),
        Layer::Convolution(l) => l.forward(x),
        Layer::Deconvolution(l) => l.forward(x),
        Layer::Maxpool(l) => {
            let (pre, post, _) = l.forward(x);
            (pre, post)
        }
        Layer::Feedback(b) => {
            let (pre, post, _, _, _) = b.forward(x);
            (pre, post)
        }
    }
}

fn case_json(cfg: &NetCfg, params: &[P], x: &[f32]) -> J {
    J::obj().set("network", J::s(&cfg.describe())).set("parameters", params_json(params)).set("input", J::f32s(x))
}

fn single_layer(rng: &mut Rng, idx: u64, out: &mut Out) {
    let kinds = ["dense", "conv", "deconv", "pool", "conv", "deconv"];
    let kind = kinds[(idx % 6) as usize];
    // soft-max (over the whole layer output) is a legal activation of every layer kind
    let act = ALL_ACTS[((idx / 6) % 6) as usize];
    let (l, input) = if kind == "dense" {
        let n = rng.range(1, 9);
        (
            LCfg::Dense {
                n: rng.range(1, 7),
                act,
                bias: rng.bool(),
                dropout: None,
            },
            Sh::Flat(n),
        )
    } else {
        spatial_layer_case(rng, idx / 6, kind, 8, act)
    };
    layer_check(rng, kind, l, input, out, idx < 6);
}

/// Small dyadic values: sums and products of these hit exact round numbers, equal elements and
/// cancellations occur often.
pub const PALETTE: [f32; 9] = [-2.0, -1.0, -0.5, 0.0, 0.0, 0.5, 1.0, 1.0, 2.0];

/// Sizes around the powers of two at which blocked / chunked / parallel code paths switch.
pub const THRESHOLDS: [usize; 24] = [31, 32, 33, 63, 64, 65, 66, 127, 128, 129, 130, 255, 256, 257, 511, 513, 1023, 1025, 2047, 2049, 4095, 4096, 4097, 8193];

/// Layers that are large in one direction: dense layers with up to 8193 inputs or 1025 outputs,
/// spatial layers with an extent up to 257, up to 17 channels / filters, kernels up to 7,
/// stride up to 5, padding up to 4, dilation up to 4.
fn large_layer(rng: &mut Rng, idx: u64, out: &mut Out) {
    let kinds = ["dense", "conv", "deconv", "pool"];
    let kind = kinds[(idx % 4) as usize];
    let act = ALL_ACTS[((idx / 4) % 6) as usize];
    for _ in 0..200 {
        let (l, input) = if kind == "dense" {
            let (n_in, n_out) = match rng.range(0, 3) {
                0 => (*rng.pick(&THRESHOLDS), rng.range(1, 3)),
                1 => (rng.range(1, 5), *rng.pick(&THRESHOLDS[..18])),
                2 => (*rng.pick(&THRESHOLDS[..11]), *rng.pick(&THRESHOLDS[..11])),
                _ => (rng.range(130, 9000), rng.range(1, 2)),
            };
            (LCfg::Dense { n: n_out, act, bias: rng.bool(), dropout: None }, Sh::Flat(n_in))
        } else {
            let big = *rng.pick(&THRESHOLDS[..14]);
            let small = rng.range(1, 6);
            let (h, w) = if rng.bool() { (big, small) } else { (small, big) };
            let c = *rng.pick(&[1usize, 2, 3, 4, 8, 9, 16, 17]);
            let filters = *rng.pick(&[1usize, 2, 4, 5, 8, 9, 17]);
            let g = |rng: &mut Rng| (rng.range(1, 7), rng.range(1, 5), rng.range(0, 4), rng.range(1, 4));
            let (k0, s0, p0, d0) = g(rng);
            let (k1, s1, p1, d1) = g(rng);
            let l = match kind {
                "conv" => LCfg::Conv { filters, kernel: (k0, k1), stride: (s0, s1), padding: (p0, p1), dilation: (d0, d1), act, dropout: None },
                "deconv" => LCfg::Deconv { filters, kernel: (k0, k1), stride: (s0, s1), padding: (p0, p1), act, dropout: None },
                _ => LCfg::Pool { kernel: (k0, k1), stride: (s0, s1) },
            };
            (l, Sh::Sp(c, h, w))
        };
        // bound the work of the reference operator
        let work = match (&l, out_shape(&l, input)) {
            (_, Err(_)) => continue,
            (LCfg::Dense { n, .. }, Ok(_)) => n * input.count(),
            (LCfg::Conv { kernel, .. }, Ok(o)) => o.count() * kernel.0 * kernel.1 * input.spatial().unwrap().0,
            (LCfg::Deconv { kernel, filters, .. }, Ok(_)) => input.count() * kernel.0 * kernel.1 * filters,
            (LCfg::Pool { kernel, .. }, Ok(o)) => o.count() * kernel.0 * kernel.1,
            _ => continue,
        };
        if work > 400_000 {
            continue;
        }
        out.cover("large_layer_sizes", format!("{} {}", kind, input.name()));
        out.count("large_layers", 1);
        layer_check(rng, kind, l, input, out, idx < 4);
        return;
    }
    out.nontrivial = false;
    out.count("large_layer_cases_without_a_valid_configuration", 1);
}

fn layer_check(rng: &mut Rng, kind: &str, l: LCfg, input: Sh, out: &mut Out, sample: bool) {
    let cfg = NetCfg::plain(input, vec![l.clone()]);
    out.key = format!("layer {} on {}", l.describe(), input.name());
    out.cover("layer_geometries", l.geometry());
    out.cover("layer_kinds", kind.to_string());
    if let Err(e) = cfg.shapes() {
        out.nontrivial = false;
        out.count("generated_configurations_invalid_by_the_standard_formulas", 1);
        out.key = format!("invalid: {}", e);
        return;
    }
    let params = gen_params(&cfg, rng, -1.5, 1.5).unwrap();
    let scale = *rng.pick(&[1.0f32, 1.0, 1.0, 1.0, 1e-12, 1e-6, 1e6, 1e12, 1e-30, 1e-38, 1e30]);
    let mut x: Vec<f32> = random_input(rng, input).iter().map(|v| v * scale).collect();
    let mut params = params;
    // one case in eight: inputs (and one in sixteen: parameters too) from the dyadic palette
    match rng.range(0, 15) {
        0 => {
            for v in x.iter_mut() {
                *v = *rng.pick(&PALETTE);
            }
            out.count("layer_cases_with_palette_inputs", 1);
        }
        1 => {
            for v in x.iter_mut() {
                *v = *rng.pick(&PALETTE);
            }
            for q in params.iter_mut() {
                let vals: Vec<f32> = (0..q.count()).map(|_| *rng.pick(&PALETTE)).collect();
                q.set_flat(&vals);
            }
            out.count("layer_cases_with_palette_inputs_and_parameters", 1);
        }
        // max-pool, one case in eight: most of the image holds the most negative finite float
        // (a common "minus infinity" mask value), so that whole windows consist of it
        2 | 3 if kind == "pool" => {
            let keep = rng.range(0, 3);
            for v in x.iter_mut() {
                if rng.range(0, 9) >= keep {
                    *v = f32::MIN;
                }
            }
            if !x.is_empty() && rng.bool() {
                x[0] = 5.0;
            }
            out.count("pool_cases_with_windows_of_the_most_negative_float", 1);
        }
        _ => {}
    }
    let net = match build(&cfg, Some(&params)) {
        Ok(n) => n,
        Err(m) => {
            out.viol(&format!("forward:{}:create-panic", kind), format!("creating {} on input {} panicked: {}", l.describe(), input.name(), short(&m, 200)), case_json(&cfg, &params, &x));
            return;
        }
    };
    let r: RNet<E> = RNet::plain(&cfg, &params);
    let step = layer_forward(&r.layers[0], &Val::from_f32(r.shapes[0].0, &x));
    let reps: Vec<(&str, Tensor)> = if kind == "dense" { vec![("flat", tensor_of(input.flat(), &x))] } else { vec![("3d", tensor_of(input, &x)), ("flat", tensor_of(input.flat(), &x))] };
    let mut results: Vec<Vec<f32>> = Vec::new();
    for (rep, t) in reps.iter() {
        match guard(|| layer_fwd(&net.layers[0], t)) {
            Err(m) => {
                out.viol(&format!("forward:{}:panic:{}", kind, rep), format!("{} forward panicked on {} input {}: {}", l.describe(), rep, input.name(), short(&m, 200)), case_json(&cfg, &params, &x));
            }
            Ok((pre, post)) => {
                out.count("layer_forward_calls", 1);
                for (name, t, want) in [("pre", &pre, &step.pre), ("post", &post, &step.post)] {
                    if shape_dims(&t.shape) != sh_dims(want.sh) || !shape_consistent(t) {
                        out.viol(&format!("forward:{}:shape:{}", kind, rep), format!("{} {}-activation has shape {:?}, operator gives {}", l.describe(), name, shape_dims(&t.shape), want.sh.name()), case_json(&cfg, &params, &x));
                        continue;
                    }
                    if let Some((i, got, w, tol)) = cmp_e(&flat(t), &want.d) {
                        out.viol(
                            &format!("forward:{}:value:{}", kind, rep),
                            format!("{} on {} ({} input, scale {:e}): {}-activation[{}] = {:e}, defining operator gives {:e} (bound {:e})", l.describe(), input.name(), rep, scale, name, i, got, w, tol),
                            case_json(&cfg, &params, &x),
                        );
                    }
                }
                results.push(flat(&post));
            }
        }
    }
    if results.len() == 2 && bits_eq(&results[0], &results[1]) {
        out.count("flat_and_3d_results_bit_identical", 1);
    }
    if sample {
        out.sample = Some(case_json(&cfg, &params, &x));
    }
}

fn network_case(rng: &mut Rng, idx: u64, out: &mut Out) {
    let mut o = NetOpts::standard();
    o.max_depth = 5;
    // every sixth network: a stack of channel-preserving convolutions / deconvolutions with
    // per-layer kernels and paddings (intermediate tensors of equal shape, different margins)
    let mut cfg = random_net(rng, &o);
    if idx % 6 == 5 {
        let st = crate::monitors::c05::stack_net(rng);
        if st.shapes().is_ok() {
            cfg = st;
            out.count("networks_that_are_convolution_stacks", 1);
        }
    }
    // a dropout rate on a layer concerns training only: prediction must not depend on it
    if idx % 4 == 1 {
        for l in cfg.layers.iter_mut() {
            if rng.chance(0.4) {
                l.set_dropout(Some(*rng.pick(&[0.0f32, 0.3, 0.9, 1.0])));
            }
        }
        out.count("networks_with_dropout_rates_configured_(prediction_only)", 1);
    }
    let params = gen_params(&cfg, rng, -1.5, 1.5).unwrap();
    let mut x = random_input(rng, cfg.input);
    // every eighth network: inputs from a small dyadic palette (exact ones, halves, values that
    // cancel: data-dependent shortcuts have something to trigger on)
    if idx % 8 == 3 {
        for v in x.iter_mut() {
            *v = *rng.pick(&PALETTE);
        }
    }
    out.key = format!("net {}", cfg.describe());
    out.cover("architectures", cfg.architecture());
    for l in cfg.layers.iter() {
        out.cover("layer_geometries", l.geometry());
    }
    let mut net = match build(&cfg, Some(&params)) {
        Ok(n) => n,
        Err(m) => {
            out.viol("network:create-panic", format!("building {} panicked: {}", cfg.describe(), short(&m, 200)), case_json(&cfg, &params, &x));
            return;
        }
    };
    let r: RNet<E> = RNet::plain(&cfg, &params);
    let trace = r.forward(&Val::from_f32(cfg.input, &x));
    let reps: Vec<(&str, Tensor)> = if cfg.input.is_flat() { vec![("given", tensor_of(cfg.input, &x))] } else { vec![("given", tensor_of(cfg.input, &x)), ("flat", tensor_of(cfg.input.flat(), &x))] };
    for (rep, t) in reps.iter() {
        match guard(|| (net.predict(t), net.forward(t))) {
            Err(m) => out.viol(&format!("network:panic:{}", rep), format!("predict panicked on {} ({} input): {}", cfg.describe(), rep, short(&m, 200)), case_json(&cfg, &params, &x)),
            Ok((pred, (_pre, post, _, _))) => {
                out.count("network_predictions", 1);
                let want = trace.output();
                if shape_dims(&pred.shape) != sh_dims(want.sh) || !shape_consistent(&pred) {
                    out.viol("network:shape", format!("prediction of {} has shape {:?}, composition gives {}", cfg.describe(), shape_dims(&pred.shape), want.sh.name()), case_json(&cfg, &params, &x));
                } else if let Some((i, got, w, tol)) = cmp_e(&flat(&pred), &want.d) {
                    out.viol("network:value", format!("prediction[{}] of {} = {:e}, composition of the defining operators gives {:e} (bound {:e}; {} input)", i, cfg.describe(), got, w, tol, rep), case_json(&cfg, &params, &x));
                }
                // every intermediate output
                if post.len() == cfg.layers.len() + 1 {
                    for li in 0..cfg.layers.len() {
                        if let Some((i, got, w, tol)) = cmp_e(&flat(&post[li + 1]), &trace.outs[li].d) {
                            out.viol("network:layer-output", format!("output[{}] of layer {} in {} = {:e}, expected {:e} (bound {:e})", i, li, cfg.describe(), got, w, tol), case_json(&cfg, &params, &x));
                            break;
                        }
                    }
                }
                // metamorphic: predict == manual composition of the network's own layers
                if *rep == "given" {
                    let manual = guard(|| {
                        let mut cur = t.clone();
                        for l in net.layers.iter() {
                            cur = layer_fwd(l, &cur).1;
                        }
                        cur
                    });
                    match manual {
                        Ok(m) if bits_eq(&flat(&m), &flat(&pred)) => out.count("predictions_equal_to_manual_composition", 1),
                        Ok(_) => out.viol("network:not-composition", format!("predict of {} differs from feeding each layer's output into the next layer's forward", cfg.describe()), case_json(&cfg, &params, &x)),
                        Err(m) => out.viol("network:composition-panic", format!("manual composition of {} panicked: {}", cfg.describe(), short(&m, 200)), case_json(&cfg, &params, &x)),
                    }
                }
            }
        }
    }
    // call sequences on the same object: another input in between, the first input again, then
    // new parameters - every answer must be the one of the CURRENT input and parameters
    if idx % 2 == 0 {
        let first = guard(|| net.predict(&reps[0].1));
        let x2 = random_input(rng, cfg.input);
        let t2 = tensor_of(cfg.input, &x2);
        let want2 = r.forward(&Val::from_f32(cfg.input, &x2));
        match guard(|| net.predict(&t2)) {
            Ok(p2) => {
                if let Some((i, got, w, tol)) = cmp_e(&flat(&p2), &want2.output().d) {
                    out.viol("network:sequence:second-input", format!("second predict call on the same network (another input): prediction[{}] of {} = {:e}, expected {:e} (bound {:e})", i, cfg.describe(), got, w, tol), case_json(&cfg, &params, &x2));
                }
            }
            Err(m) => out.viol("network:sequence:panic", format!("second predict call on {} panicked: {}", cfg.describe(), short(&m, 160)), case_json(&cfg, &params, &x2)),
        }
        if let (Ok(a), Ok(b)) = (&first, guard(|| net.predict(&reps[0].1))) {
            if !bits_eq(&flat(a), &flat(&b)) {
                out.viol("network:sequence:not-repeatable", format!("predict of {} on the same input differs after a call with another input", cfg.describe()), case_json(&cfg, &params, &x));
            }
        }
        let params2 = gen_params(&cfg, rng, -1.5, 1.5).unwrap();
        set_params(&mut net, &params2);
        let r2: RNet<E> = RNet::plain(&cfg, &params2);
        let want3 = r2.forward(&Val::from_f32(cfg.input, &x));
        match guard(|| net.predict(&reps[0].1)) {
            Ok(p3) => {
                if let Some((i, got, w, tol)) = cmp_e(&flat(&p3), &want3.output().d) {
                    out.viol("network:sequence:new-parameters", format!("predict after the parameters of {} were replaced: prediction[{}] = {:e}, expected {:e} (bound {:e})", cfg.describe(), i, got, w, tol), case_json(&cfg, &params2, &x));
                }
            }
            Err(m) => out.viol("network:sequence:panic", format!("predict after replacing the parameters of {} panicked: {}", cfg.describe(), short(&m, 160)), case_json(&cfg, &params2, &x)),
        }
        out.count("call_sequences_on_one_network_object", 1);
    }
    if idx < 3 {
        out.sample = Some(case_json(&cfg, &params, &x));
    }
}

impl Monitor for C02 {
    fn id(&self) -> &'static str {
        "C02"
    }
    fn gens(&self, tier: Tier) -> Vec<(&'static str, u64)> {
        vec![("layers", tier.pick(486_000, 4_860_000)), ("large", tier.pick(6_000, 120_000)), ("networks", tier.pick(60_000, 600_000))]
    }
    fn rule(&self) -> &'static str {
        "layers: case i -> layer kind (dense, conv, deconv, pool; conv and deconv twice as often), activation (i/6 mod 6, soft-max over the whole layer output included), geometry from the covering walk over the 108 per-axis (kernel 1..3, stride 1..3, padding 0..3, dilation 1..3) tuples on each axis independently (rectangular kernels, asymmetric stride/padding/dilation), channels/filters 1..3, extents from the smallest valid one up to 8, repetition-free weights and inputs in [-1.5,1.5] (one case in eight: inputs, one in sixteen: parameters too, from the dyadic palette {-2,-1,-0.5,0,0.5,1,2}), inputs scaled by 1 / 1e-12 / 1e-6 / 1e6 / 1e12 / 1e-30 / 1e-38 (products become subnormal) / 1e30; the layer's public forward is called with the 3-D tensor and with its row-major flattening; pre- and post-activation must lie within the running f32 error bound (refmodel::E) of the gather-form reference operator and have its shape. large: the same check on layers that are large in one direction - dense layers with inputs or outputs from {31..33, 63..66, 127..130, 255..257, 511, 513, 1023, 1025, 2047, 2049, 4095..4097, 8193} or random up to 9000, spatial layers with one extent from the same list up to 257 (the other 1..6), 1..17 channels and filters, kernels 1..7, stride 1..5, padding 0..4, dilation 1..4 (reference work bounded by 4e5 multiply-adds per case). networks: random sequences (depth 1..5, dense->spatial and spatial->dense transitions) - predict and every intermediate output of forward vs the composed reference, predict == manual composition of the layers' own forward (bit-exact), flat input representation too; every fourth network has dropout rates configured on random layers (irrelevant for prediction); every second network additionally answers a call sequence on the same object (another input, the first input again - bit-equal to its first answer -, then replaced parameters: reference at the current input and parameters). Distinct = distinct configuration descriptors."
    }
    fn assumptions(&self) -> Vec<&'static str> {
        vec!["'the same result for flat and CxHxW input' is decided by comparing both with the reference within the rounding bound (bit-identity is recorded, not demanded)", "harness built with overflow checks on (debug-profile integer semantics)"]
    }
    fn run(&self, gen: &str, seed: u64, idx: u64, _tier: Tier) -> Out {
        let mut rng = Rng::stream(seed, gen, idx);
        let mut out = Out::new(String::new());
        match gen {
            "layers" => single_layer(&mut rng, idx, &mut out),
            "large" => large_layer(&mut rng, idx, &mut out),
            "networks" => network_case(&mut rng, idx, &mut out),
            _ => panic!("unknown generator {}", gen),
        }
        out
    }
    fn finish(&self, _tier: Tier, _seed: u64, agg: &mut Agg) {
        agg.require(agg.set_size("layer_geometries") >= 1500, format!("only {} distinct layer geometries", agg.set_size("layer_geometries")));
        agg.require(agg.count("network_predictions") >= 1000, "too few network predictions".into());
        agg.require(agg.count("large_layers") >= 2000, "too few large layers".into());
    }
}
