//! C08 — announced layer shapes equal produced shapes; transitions lose nothing.

use crate::cfg::*;
use crate::core::*;
use crate::gen::*;
use crate::json::J;
use crate::lib_build::*;
use crate::monitors::c02::sh_dims;
use crate::rng::Rng;
use neurons::network::{Layer, Network};
use neurons::tensor::{Shape, Tensor};
use neurons::{activation, convolution, deconvolution, maxpool};

pub struct C08;

/// The `inputs -> outputs` pair the network's Display announces for each top-level layer.
pub fn announced(net: &Network) -> Vec<(String, String)> {
    let text = format!("{}", net);
    let mut out = Vec::new();
    for line in text.lines() {
        if line.starts_with("\t\t\t") && !line.starts_with("\t\t\t\t") && line.contains(" -> ") && !line.contains(".input") {
            let t = line.trim();
            let mut it = t.split(" -> ");
            if let (Some(a), Some(b)) = (it.next(), it.next()) {
                out.push((a.trim().to_string(), b.trim().to_string()));
            }
        }
    }
    out
}

fn parse_shape(s: &str) -> Option<Sh> {
    let parts: Vec<usize> = s.split('x').map(|p| p.trim().parse::<usize>()).collect::<Result<_, _>>().ok()?;
    match parts.len() {
        1 => Some(Sh::Flat(parts[0])),
        3 => Some(Sh::Sp(parts[0], parts[1], parts[2])),
        _ => None,
    }
}

fn ramp(n: usize) -> Vec<f32> {
    (0..n).map(|i| ((i * 7 + 3) % 23) as f32 / 23.0 - 0.4).collect()
}

/// Announced == formula == produced, gradient shapes == parameter shapes, for one network.
fn check_network(cfg: &NetCfg, out: &mut Out, tag: &str) {
    let detail = || J::obj().set("network", J::s(&cfg.describe()));
    let shapes = match cfg.shapes() {
        Ok(s) => s,
        Err(e) => {
            // invalid by the standard formulas: nothing is claimed about it
            out.nontrivial = false;
            out.count("configurations_invalid_by_the_standard_formulas", 1);
            out.key = format!("invalid {}", e);
            return;
        }
    };
    let net = match build(cfg, None) {
        Ok(n) => n,
        Err(m) => {
            out.viol(&format!("shape:{}:create-panic", tag), format!("valid configuration {} was refused: {}", cfg.describe(), short(&m, 200)), detail());
            return;
        }
    };
    let ann = announced(&net);
    if ann.len() != cfg.layers.len() {
        out.viol(&format!("shape:{}:display-unparsable", tag), format!("Display lists {} layer shape lines for {} layers", ann.len(), cfg.layers.len()), detail().set("display", J::s(&format!("{}", net))));
        return;
    }
    for (i, ((a_in, a_out), (f_in, f_out, _))) in ann.iter().zip(shapes.iter()).enumerate() {
        let (pi, po) = (parse_shape(a_in), parse_shape(a_out));
        if pi != Some(*f_in) || po != Some(*f_out) {
            out.viol(
                &format!("shape:{}:announced-vs-formula", tag),
                format!("layer {} of {}: announced {} -> {}, standard formula gives {} -> {}", i, cfg.describe(), a_in, a_out, f_in.name(), f_out.name()),
                detail(),
            );
        }
    }
    out.count("layers_announced_vs_formula", ann.len() as u64);
    // produced
    let x = ramp(cfg.input.count());
    let input = tensor_of(cfg.input, &x);
    let fw = guard(|| net.forward(&input));
    let (pre, post, maxp, fbs) = match fw {
        Ok(r) => r,
        Err(m) => {
            out.viol(&format!("shape:{}:forward-panic", tag), format!("consecutive layers of {} do not fit: forward panicked: {}", cfg.describe(), short(&m, 200)), detail());
            return;
        }
    };
    for (i, (_, f_out, flatten)) in shapes.iter().enumerate() {
        let is_block = matches!(cfg.layers[i], LCfg::Feedback { .. });
        if !is_block && (shape_dims(&pre[i].shape) != sh_dims(*f_out) || !shape_consistent(&pre[i])) {
            out.viol(
                &format!("shape:{}:produced", tag),
                format!("layer {} of {} produces pre-activation {:?} (consistent {}), announced {}", i, cfg.describe(), shape_dims(&pre[i].shape), shape_consistent(&pre[i]), f_out.name()),
                detail(),
            );
        }
        let want = if *flatten { f_out.flat() } else { *f_out };
        if shape_dims(&post[i + 1].shape) != sh_dims(want) || !shape_consistent(&post[i + 1]) {
            out.viol(
                &format!("shape:{}:produced", tag),
                format!("layer {} of {} passes on {:?} (consistent {}), announced {}{}", i, cfg.describe(), shape_dims(&post[i + 1].shape), shape_consistent(&post[i + 1]), f_out.name(), if *flatten { " (flattened for the dense layer that follows)" } else { "" }),
                detail(),
            );
        }
    }
    out.count("layers_produced_vs_announced", shapes.len() as u64);
    // gradient shapes
    let last = post.last().unwrap();
    let ones = match &last.shape {
        Shape::Single(n) => Tensor::single(vec![1.0; *n]),
        s => Tensor::ones(s.clone()),
    };
    let bw = guard(|| net.verif_backward(ones, &pre, &post, &maxp, fbs));
    match bw {
        Err(m) => out.viol(&format!("shape:{}:backward-panic", tag), format!("backward of {} panicked: {}", cfg.describe(), short(&m, 200)), detail()),
        Ok((wg, bg)) => {
            let n = cfg.layers.len();
            for i in 0..n {
                let (w, b) = (&wg[n - 1 - i], &bg[n - 1 - i]);
                match &net.layers[i] {
                    Layer::Dense(d) => {
                        if shape_dims(&w.shape) != shape_dims(&d.verif_weights().shape) || !shape_consistent(w) {
                            out.viol(&format!("shape:{}:gradient", tag), format!("layer {} of {}: weight gradient {:?} for weights {:?}", i, cfg.describe(), shape_dims(&w.shape), shape_dims(&d.verif_weights().shape)), detail());
                        }
                        match (d.verif_bias(), b) {
                            (Some(bias), Some(g)) => {
                                if shape_dims(&g.shape) != shape_dims(&bias.shape) || !shape_consistent(g) {
                                    out.viol(&format!("shape:{}:gradient", tag), format!("layer {} of {}: bias gradient {:?} for bias {:?}", i, cfg.describe(), shape_dims(&g.shape), shape_dims(&bias.shape)), detail());
                                }
                            }
                            (None, None) => {}
                            _ => out.viol(&format!("shape:{}:gradient", tag), format!("layer {} of {}: bias and bias gradient disagree about existence", i, cfg.describe()), detail()),
                        }
                        out.count("gradient_tensors_checked", 1);
                    }
                    Layer::Convolution(_) | Layer::Deconvolution(_) => {
                        let ks = match &net.layers[i] {
                            Layer::Convolution(c) => c.verif_kernels(),
                            Layer::Deconvolution(c) => c.verif_kernels(),
                            _ => unreachable!(),
                        };
                        let mut want = vec![ks.len()];
                        want.extend(shape_dims(&ks[0].shape));
                        if shape_dims(&w.shape) != want || !shape_consistent(w) {
                            out.viol(&format!("shape:{}:gradient", tag), format!("layer {} of {}: kernel gradient {:?} (consistent {}) for kernels {:?}", i, cfg.describe(), shape_dims(&w.shape), shape_consistent(w), want), detail());
                        }
                        out.count("gradient_tensors_checked", 1);
                    }
                    _ => {}
                }
            }
        }
    }
}

fn kind_of(i: u64) -> &'static str {
    ["conv", "deconv", "pool"][(i % 3) as usize]
}

/// Shape lattice: axis-0 tuple enumerated completely by `idx`, axis-1 tuple by a covering walk.
fn lattice_case(idx: u64, rng: &mut Rng) -> NetCfg {
    let kind = kind_of(idx);
    let i = (idx / 3) as usize;
    // extent 1..10, kernel 1..4, stride 1..3, padding 0..3, dilation 1..3 -> 10*4*3*4*3 = 1440
    let t = |j: usize| (1 + j % 10, 1 + (j / 10) % 4, 1 + (j / 40) % 3, (j / 120) % 4, 1 + (j / 480) % 3);
    let (h, k0, s0, p0, d0) = t(i % 1440);
    // for a fixed axis-0 tuple the axis-1 tuple runs through all 1440 residues as i / 1440 grows:
    // the thorough tier (3 * 1440 * 1440 cases) enumerates the full product
    let (w, k1, s1, p1, d1) = t((i / 1440 + (i % 1440) * 487 + 77) % 1440);
    let c = rng.range(1, 2);
    let filters = rng.range(1, 2);
    // the activation (soft-max included) is applied to the spatial output and must keep its shape
    let act = *rng.pick(&ALL_ACTS);
    let l = match kind {
        "conv" => LCfg::Conv {
            filters,
            kernel: (k0, k1),
            stride: (s0, s1),
            padding: (p0, p1),
            dilation: (d0, d1),
            act,
            dropout: None,
        },
        "deconv" => LCfg::Deconv {
            filters,
            kernel: (k0, k1),
            stride: (s0, s1),
            padding: (p0, p1),
            act,
            dropout: None,
        },
        _ => LCfg::Pool { kernel: (k0, k1), stride: (s0, s1) },
    };
    NetCfg::plain(Sh::Sp(c, h, w), vec![l])
}

fn identity_kernels(c: usize) -> Vec<Tensor> {
    (0..c).map(|f| Tensor::triple((0..c).map(|ch| vec![vec![if ch == f { 1.0 } else { 0.0 }]]).collect())).collect()
}

fn flat_size_case(n: usize, out: &mut Out) {
    let r = isqrt(n);
    let square = r * r == n;
    let lin = activation::Activation::Linear;
    let index: Vec<f32> = (0..n).map(|i| i as f32).collect();
    for kind in ["conv", "deconv", "pool"] {
        out.count("flat_sizes_x_layer_kinds", 1);
        // layer level: create on a flat shape of n elements
        let created = guard(|| match kind {
            "conv" => {
                let mut l = convolution::Convolution::create(Shape::Single(n), 1, &lin, (1, 1), (1, 1), (0, 0), (1, 1), None);
                l.verif_set_kernels(identity_kernels(1));
                Layer::Convolution(l)
            }
            "deconv" => {
                let mut l = deconvolution::Deconvolution::create(Shape::Single(n), 1, &lin, (1, 1), (1, 1), (0, 0), None);
                l.verif_set_kernels(identity_kernels(1));
                Layer::Deconvolution(l)
            }
            _ => Layer::Maxpool(maxpool::Maxpool::create(Shape::Single(n), (1, 1), (1, 1))),
        });
        match (square, created) {
            (false, Ok(_)) => out.viol(
                &format!("transition:{}:non-square-accepted", kind),
                format!("a {} layer accepted a flat input of {} elements, which is not a perfect square ({}x{} = {} elements would be read)", kind, n, r, r, r * r),
                J::obj().set("flat_size", J::Int(n as i64)).set("layer", J::s(kind)),
            ),
            (true, Err(m)) => out.viol(&format!("transition:{}:square-rejected", kind), format!("a {} layer rejected a flat input of {} = {}x{} elements: {}", kind, n, r, r, short(&m, 160)), J::Null),
            (false, Err(_)) => {}
            (true, Ok(layer)) => {
                // read as 1 x r x r, row-major
                match guard(|| crate::monitors::c02::layer_fwd(&layer, &Tensor::single(index.clone()))) {
                    Err(m) => out.viol(&format!("transition:{}:forward-panic", kind), format!("{} on flat input of {} elements panicked: {}", kind, n, short(&m, 160)), J::Null),
                    Ok((pre, _)) => {
                        if shape_dims(&pre.shape) != vec![1, r, r] || !shape_consistent(&pre) || !bits_eq(&flat(&pre), &index) {
                            out.viol(
                                &format!("transition:{}:flat-to-spatial-order", kind),
                                format!("{} reads a flat vector of {} elements as shape {:?}; element order preserved: {}", kind, n, shape_dims(&pre.shape), bits_eq(&flat(&pre), &index)),
                                J::obj().set("flat_size", J::Int(n as i64)),
                            );
                        }
                    }
                }
            }
        }
        // whatever the layer's geometry: a non-square flat length is rejected (kernels with one
        // row or one column, strides, paddings, dilations, several filters)
        if !square {
            for (k, st, pd, dl, f) in [((1usize, 2usize), (1usize, 1usize), (0usize, 0usize), (1usize, 1usize), 1usize), ((1, 3), (1, 1), (0, 1), (1, 1), 2), ((2, 1), (1, 1), (0, 0), (1, 1), 1), ((3, 1), (1, 2), (1, 0), (1, 1), 3), ((1, 4), (1, 2), (0, 0), (1, 1), 1), ((2, 2), (2, 2), (0, 0), (1, 1), 1), ((3, 3), (1, 1), (1, 1), (1, 1), 2), ((1, 2), (1, 1), (0, 2), (1, 2), 1)] {
                let accepted = guard(|| match kind {
                    "conv" => shape_dims(convolution::Convolution::create(Shape::Single(n), f, &lin, k, st, pd, dl, None).verif_inputs()),
                    "deconv" => shape_dims(deconvolution::Deconvolution::create(Shape::Single(n), f, &lin, k, st, pd, None).verif_inputs()),
                    _ => shape_dims(maxpool::Maxpool::create(Shape::Single(n), k, st).verif_inputs()),
                });
                out.count("non_square_flat_sizes_x_other_geometries", 1);
                if let Ok(dims) = accepted {
                    out.viol(
                        &format!("transition:{}:non-square-accepted", kind),
                        format!("a {} layer (kernel {:?}, stride {:?}, padding {:?}, dilation {:?}) accepted a flat input of {} elements, which is not a perfect square, and reads it as {:?}", kind, k, st, pd, dl, n, dims),
                        J::obj().set("flat_size", J::Int(n as i64)).set("layer", J::s(kind)),
                    );
                    break;
                }
            }
        }
        // the same reading with a zero frame around it: 1x1 identity convolution with padding
        // (ph, pw) on the flat vector must give the index image inside a frame of zeros
        if kind == "conv" && square && n <= 400 {
            for (ph, pw) in [(0usize, 1usize), (1, 0), (1, 1), (0, 2), (2, 1)] {
                let r2 = guard(|| {
                    let mut l = convolution::Convolution::create(Shape::Single(n), 1, &lin, (1, 1), (1, 1), (ph, pw), (1, 1), None);
                    l.verif_set_kernels(identity_kernels(1));
                    crate::monitors::c02::layer_fwd(&Layer::Convolution(l), &Tensor::single(index.iter().map(|v| v + 1.0).collect()))
                });
                out.count("flat_sizes_read_through_a_padded_convolution", 1);
                match r2 {
                    Err(m) => out.viol("transition:conv:padded-forward-panic", format!("conv(padding {}x{}) on a flat input of {} elements panicked: {}", ph, pw, n, short(&m, 160)), J::Null),
                    Ok((pre, _)) => {
                        let (oh, ow) = (r + 2 * ph, r + 2 * pw);
                        let want: Vec<f32> = (0..oh * ow)
                            .map(|q| {
                                let (y, x) = (q / ow, q % ow);
                                if y >= ph && y < ph + r && x >= pw && x < pw + r {
                                    ((y - ph) * r + (x - pw)) as f32 + 1.0
                                } else {
                                    0.0
                                }
                            })
                            .collect();
                        if shape_dims(&pre.shape) != vec![1, oh, ow] || !bits_eq(&flat(&pre), &want) {
                            out.viol(
                                "transition:conv:flat-to-spatial-order:padded",
                                format!("conv with padding {}x{} reads a flat vector of {} = {}x{} elements as shape {:?}; the {}x{} image inside its zero frame is in row-major order: {}", ph, pw, n, r, r, shape_dims(&pre.shape), r, r, bits_eq(&flat(&pre), &want)),
                                J::obj().set("flat_size", J::Int(n as i64)).set("padding", J::usizes(&[ph, pw])),
                            );
                        }
                    }
                }
            }
        }
        // network level (the shape the preceding dense layer announces)
        if n <= 150 {
            let r2 = guard(|| {
                let mut net = Network::new(Shape::Single(2));
                net.dense(n, activation::Activation::Linear, false, None);
                match kind {
                    "conv" => net.convolution(1, (1, 1), (1, 1), (0, 0), (1, 1), activation::Activation::Linear, None),
                    "deconv" => net.deconvolution(1, (1, 1), (1, 1), (0, 0), activation::Activation::Linear, None),
                    _ => net.maxpool((1, 1), (1, 1)),
                }
                net
            });
            match (square, r2) {
                (false, Ok(_)) => out.viol(&format!("transition:{}:non-square-accepted", kind), format!("adding a {} layer after a dense layer of {} outputs (not a perfect square) was accepted", kind, n), J::obj().set("flat_size", J::Int(n as i64)).set("layer", J::s(kind))),
                (true, Err(m)) => out.viol(&format!("transition:{}:square-rejected", kind), format!("adding a {} layer after a dense layer of {} outputs was rejected: {}", kind, n, short(&m, 160)), J::Null),
                (true, Ok(mut net)) => {
                    // dense weights: output j = j * x0  -> index-valued vector for x = (1, 0)
                    if let Layer::Dense(d) = &mut net.layers[0] {
                        d.verif_set_weights(Tensor::double((0..n).map(|j| vec![j as f32, 0.0]).collect()));
                    }
                    match &mut net.layers[1] {
                        Layer::Convolution(c) => c.verif_set_kernels(identity_kernels(1)),
                        Layer::Deconvolution(c) => c.verif_set_kernels(identity_kernels(1)),
                        _ => {}
                    }
                    match guard(|| net.predict(&Tensor::single(vec![1.0, 0.0]))) {
                        Err(m) => out.viol(&format!("transition:{}:forward-panic", kind), format!("dense({}) -> {} network panicked in predict: {}", n, kind, short(&m, 160)), J::Null),
                        Ok(p) => {
                            if shape_dims(&p.shape) != vec![1, r, r] || !bits_eq(&flat(&p), &index) {
                                out.viol(&format!("transition:{}:flat-to-spatial-order", kind), format!("dense({}) -> {}: output shape {:?}, row-major order preserved: {}", n, kind, shape_dims(&p.shape), bits_eq(&flat(&p), &index)), J::Null);
                            }
                        }
                    }
                }
                _ => {}
            }
        }
    }
}

/// spatial -> dense: the flattening is row-major and loses nothing.
fn flatten_case(rng: &mut Rng, out: &mut Out) {
    let (c, h, w) = (rng.range(1, 3), rng.range(1, 5), rng.range(1, 5));
    let n = c * h * w;
    let kind = *rng.pick(&["conv", "deconv", "pool"]);
    out.key = format!("flatten {} {}x{}x{}", kind, c, h, w);
    let l = match kind {
        "conv" => LCfg::Conv {
            filters: c,
            kernel: (1, 1),
            stride: (1, 1),
            padding: (0, 0),
            dilation: (1, 1),
            act: Act::Linear,
            dropout: None,
        },
        "deconv" => LCfg::Deconv {
            filters: c,
            kernel: (1, 1),
            stride: (1, 1),
            padding: (0, 0),
            act: Act::Linear,
            dropout: None,
        },
        _ => LCfg::Pool { kernel: (1, 1), stride: (1, 1) },
    };
    let cfg = NetCfg::plain(Sh::Sp(c, h, w), vec![l, LCfg::Dense { n, act: Act::Linear, bias: false, dropout: None }]);
    let ident: Vec<Vec<f32>> = (0..n).map(|i| (0..n).map(|j| if i == j { 1.0 } else { 0.0 }).collect()).collect();
    let ident_k: Vec<Vec<Vec<Vec<f32>>>> = (0..c).map(|f| (0..c).map(|ch| vec![vec![if ch == f { 1.0 } else { 0.0 }]]).collect()).collect();
    let params = vec![if kind == "pool" { P::None } else { P::Kern(ident_k) }, P::Dense { w: ident, b: None }];
    let index: Vec<f32> = (0..n).map(|i| i as f32 + 1.0).collect();
    match build(&cfg, Some(&params)).and_then(|net| guard(|| net.predict(&tensor_of(cfg.input, &index)))) {
        Err(m) => out.viol("transition:flatten-panic", format!("{} panicked: {}", cfg.describe(), short(&m, 200)), J::Null),
        Ok(p) => {
            if !bits_eq(&flat(&p), &index) {
                out.viol("transition:spatial-to-flat-order", format!("{}: the dense layer does not receive the row-major flattening of the {}x{}x{} output", cfg.describe(), c, h, w), J::f32s(&flat(&p)));
            }
            out.count("spatial_to_dense_flattenings", 1);
        }
    }
    // the same transition in TRAINING mode (learn() sets it), with dropout configured on the
    // spatial layer: the dense layer must still be handed a flat tensor - a training step on one
    // sample must go through (the values are not judged here: dropout changes them)
    if kind != "pool" && rng.bool() {
        let mut tcfg = cfg.clone();
        tcfg.layers[0].set_dropout(Some(*rng.pick(&[0.1f32, 0.5, 0.9])));
        if let Ok(mut net) = build(&tcfg, Some(&params)) {
            net.set_objective(lib_obj(Obj::MSE), None);
            net.set_optimizer(OptCfg::Sgd { lr: 0.001, decay: None }.build());
            let x = tensor_of(tcfg.input, &index);
            let t = Tensor::single(vec![0.5; n]);
            out.count("spatial_to_dense_flattenings_in_training_mode_with_dropout", 1);
            if let Err(m) = guard(|| net.learn(&vec![&x], &vec![&t], None, 1, 1, None)) {
                if !m.contains("Loss is NaN") {
                    out.viol("transition:flatten-panic:training", format!("{}: a training step (dropout on the spatial layer) panicked: {}", tcfg.describe(), short(&m, 200)), J::Null);
                }
            }
        }
    }
}

/// Flat <-> spatial transitions made by connections instead of consecutive layers: a loop
/// connection leading from a flattened spatial output back into a (multi-channel) spatial layer, a skip
/// connection from a flat input into a multi-channel spatial input and one from a spatial
/// input into a flat one. All layers are identities (1x1 unit kernels, unit matrices, linear)
/// and the input holds 1..n, so every output element names the input element it came from:
/// with add / mean accumulation the output must be an exact small multiple of 1..n in order.
fn connection_case(rng: &mut Rng, out: &mut Out) {
    use crate::refmodel::{RNet, Val};
    let (c, h, w) = (rng.range(1, 4), rng.range(1, 5), rng.range(1, 5));
    let n = c * h * w;
    let ident = |n: usize| -> Vec<Vec<f32>> { (0..n).map(|i| (0..n).map(|j| if i == j { 1.0 } else { 0.0 }).collect()).collect() };
    let ident_k = |c: usize| -> Vec<Vec<Vec<Vec<f32>>>> { (0..c).map(|f| (0..c).map(|ch| vec![vec![if ch == f { 1.0 } else { 0.0 }]]).collect()).collect() };
    let spatial = |rng: &mut Rng, c: usize| -> (LCfg, P) {
        match rng.range(0, 2) {
            0 => (LCfg::Conv { filters: c, kernel: (1, 1), stride: (1, 1), padding: (0, 0), dilation: (1, 1), act: Act::Linear, dropout: None }, P::Kern(ident_k(c))),
            1 => (LCfg::Deconv { filters: c, kernel: (1, 1), stride: (1, 1), padding: (0, 0), act: Act::Linear, dropout: None }, P::Kern(ident_k(c))),
            _ => (LCfg::Pool { kernel: (1, 1), stride: (1, 1) }, P::None),
        }
    };
    let dense = |n: usize| -> (LCfg, P) { (LCfg::Dense { n, act: Act::Linear, bias: false, dropout: None }, P::Dense { w: ident(n), b: None }) };
    let acc = *rng.pick(&[Acc::Add, Acc::Mean, Acc::Add, Acc::Overwrite]);
    // (a loop connection leaving a dense layer into a spatial one is refused by `loopback`: the
    // declared shapes must be equal, so the only loop with a transition leaves a spatial
    // layer whose output is flattened for the dense layer behind it)
    let variant = *rng.pick(&[1usize, 1, 2, 3]);
    let (cfg, params, what) = match variant {
        0 | 1 => {
            // spatial identity layers, then a dense identity; the loop leaves the last spatial
            // layer, whose output is flattened
            let depth = rng.range(1, 2);
            let mut layers = Vec::new();
            let mut params = Vec::new();
            for _ in 0..depth {
                let (l, p) = spatial(rng, c);
                layers.push(l);
                params.push(p);
            }
            let (l, p) = dense(n);
            layers.push(l);
            params.push(p);
            if rng.bool() {
                let (l, p) = dense(n);
                layers.push(l);
                params.push(p);
            }
            let outof = if variant == 0 { depth + rng.range(0, layers.len() - depth - 1) } else { depth - 1 };
            let into = rng.range(0, depth - 1);
            let mut cfg = NetCfg::plain(Sh::Sp(c, h, w), layers);
            cfg.loops = vec![(outof, into, rng.range(1, 3), rng.chance(0.3))];
            cfg.loopacc = acc;
            (cfg, params, "loop")
        }
        2 => {
            // flat input of c*r*r elements; dense (zero weights) to r*r, a 1x1 convolution to
            // c channels, then a spatial identity whose input receives the flat network input
            let r = rng.range(1, 4);
            let n0 = c * r * r;
            let zero: Vec<Vec<f32>> = (0..r * r).map(|_| vec![0.0; n0]).collect();
            let spread: Vec<Vec<Vec<Vec<f32>>>> = (0..c).map(|_| vec![vec![vec![1.0]]]).collect();
            let (l2, p2) = spatial(rng, c);
            let (l3, p3) = dense(n0);
            let layers = vec![LCfg::Dense { n: r * r, act: Act::Linear, bias: false, dropout: None }, LCfg::Conv { filters: c, kernel: (1, 1), stride: (1, 1), padding: (0, 0), dilation: (1, 1), act: Act::Linear, dropout: None }, l2, l3];
            let params = vec![P::Dense { w: zero, b: None }, P::Kern(spread), p2, p3];
            let mut cfg = NetCfg::plain(Sh::Flat(n0), layers);
            cfg.skips = vec![(0, 2)];
            cfg.skipacc = acc;
            (cfg, params, "skip flat->spatial")
        }
        _ => {
            // spatial input; the dense identity behind a spatial identity also receives the
            // network input
            let (l0, p0) = spatial(rng, c);
            let (l1, p1) = dense(n);
            let mut layers = vec![l0, l1];
            let mut params = vec![p0, p1];
            if rng.bool() {
                let (l, p) = dense(n);
                layers.push(l);
                params.push(p);
            }
            let to = rng.range(1, layers.len() - 1);
            let mut cfg = NetCfg::plain(Sh::Sp(c, h, w), layers);
            cfg.skips = vec![(0, to)];
            cfg.skipacc = acc;
            (cfg, params, "skip spatial->flat")
        }
    };
    out.key = format!("connection {} {}", what, cfg.describe());
    let count = cfg.input.count();
    let index: Vec<f32> = (0..count).map(|i| i as f32 + 1.0).collect();
    let want: Vec<f64> = match guard(|| {
        let r: RNet<f64> = RNet::plain(&cfg, &params);
        r.forward(&Val::from_f32(cfg.input, &index)).outs.last().unwrap().d.clone()
    }) {
        Ok(v) => v,
        Err(_) => {
            out.count("connection_cases_skipped", 1);
            return;
        }
    };
    // with identities everywhere the expected output is a multiple of 1..n, in order
    let factor = want[0];
    if want.iter().enumerate().any(|(i, v)| *v != factor * (i as f64 + 1.0)) {
        out.count("connection_cases_skipped", 1);
        return;
    }
    match build(&cfg, Some(&params)).and_then(|net| guard(|| net.predict(&tensor_of(cfg.input, &index)))) {
        Err(m) => out.viol("transition:connection-panic", format!("{} panicked: {}", out.key, short(&m, 200)), J::Null),
        Ok(p) => {
            let got = flat(&p);
            if got.len() != want.len() || got.iter().zip(want.iter()).any(|(g, w)| *g as f64 != *w) {
                out.viol(&format!("transition:connection-order:{}", what), format!("{}: identity layers on the input 1..{} must give {} x (1..{}) in row-major order, library gives {:?}", out.key, count, factor, count, &got[..got.len().min(12)]), J::f32s(&got));
            }
            out.count("connection_transitions", 1);
            out.cover("connection_transition_kinds", format!("{} c{} acc {}", what, c.min(2), acc.name()));
        }
    }
}

impl Monitor for C08 {
    fn id(&self) -> &'static str {
        "C08"
    }
    fn gens(&self, tier: Tier) -> Vec<(&'static str, u64)> {
        vec![("lattice", tier.pick(4320 * 150, 3 * 1440 * 1440)), ("sequences", tier.pick(75_000, 750_000)), ("large_extents", tier.pick(3_000, 60_000)), ("flat_sizes", 1100), ("large_flat_sizes", 1), ("flatten", tier.pick(15_000, 150_000)), ("connections", tier.pick(30_000, 300_000))]
    }
    fn rule(&self) -> &'static str {
        "lattice: single conv/deconv/pool layers; axis 0 enumerates (extent 1..10, kernel 1..4, stride 1..3, padding 0..3, dilation 1..3) completely, axis 1 follows a covering walk over the same 1440 tuples; configurations invalid by the standard formulas are skipped (counted); for the others: the `inputs -> outputs` line of the network's Display == closed form (conv floor((i+2p-d(k-1)-1)/s)+1, deconv (i-1)s-2p+k, pool floor((i-k)/s)+1) == shape field and nesting of the tensors forward produces, and every weight/bias/kernel gradient of the hooked backward has the shape of its parameter. large_extents: single conv/deconv/pool layers (every third followed by a dense layer) with one extent from {31..33, 63..66, 127..130, 255..257}, 1..17 channels and filters, kernels 1..7, stride 1..5, padding 0..4, dilation 1..4, any activation - same checks. sequences: random networks of depth 1..5 with all transitions, every fourth with a feedback block (every eighth: a block with random input / output skips and any of the five accumulations, 1..3 repetitions, bodies of one or two layers whose inner shapes may differ). flat_sizes: EVERY flat size n = 1..1100 x {conv, deconv, pool}: accepted iff n is a perfect square, then read as 1 x r x r in row-major order (index-valued input through 1x1 identity layers); non-square lengths additionally against eight other geometries (one-row and one-column kernels, strides, paddings, dilation, several filters), all of which must be rejected; for squares up to 400 additionally through 1x1 identity convolutions with paddings (0,1), (1,0), (1,1), (0,2), (2,1): the r x r image must sit in row-major order inside its frame of zeros; network-level (dense(n) followed by the spatial layer) for n <= 150. large_flat_sizes: r*r + d for r in {4095..100003}, d in -3..3 (lengths beyond 2^24 that single precision cannot represent), layer level. flatten: spatial output into identity dense layer must arrive in row-major order; with dropout configured on the spatial layer a training step (training mode) on one sample must go through as well. connections: the same transitions made by connections - a loop connection from a spatial layer whose output is flattened back into a spatial layer with 1..4 channels, a skip connection from a flat input into a multi-channel spatial input, one from a spatial input into a flat input - through identity layers on the input 1..n: the output must be the exact multiple of 1..n (in order) that the reference semantics of the connection give."
    }
    fn assumptions(&self) -> Vec<&'static str> {
        vec!["the Display output of Network is parsed black-box for the announced shapes", "harness built with overflow checks on"]
    }
    fn run(&self, gen: &str, seed: u64, idx: u64, _tier: Tier) -> Out {
        let mut rng = Rng::stream(seed, gen, idx);
        let mut out = Out::new(String::new());
        match gen {
            "lattice" => {
                let cfg = lattice_case(idx, &mut rng);
                out.key = cfg.describe();
                out.cover("lattice_geometries", cfg.layers[0].geometry());
                out.cover("lattice_activations", cfg.layers[0].act().map(|a| a.name()).unwrap_or("none").to_string());
                check_network(&cfg, &mut out, cfg.layers[0].kind());
                if idx < 3 {
                    out.sample = Some(J::obj().set("network", J::s(&cfg.describe())));
                }
            }
            "large_extents" => {
                // one extent around a power of two (31..257), kernels up to 7, stride up to 5,
                // padding up to 4, dilation up to 4, up to 17 channels / filters
                let kind = kind_of(idx);
                let big = *rng.pick(&crate::monitors::c02::THRESHOLDS[..14]);
                let small = rng.range(1, 9);
                let (h, w) = if rng.bool() { (big, small) } else { (small, big) };
                let c = *rng.pick(&[1usize, 2, 3, 8, 9, 16, 17]);
                let filters = *rng.pick(&[1usize, 2, 3, 8, 9, 17]);
                let g = |rng: &mut Rng| (rng.range(1, 7), rng.range(1, 5), rng.range(0, 4), rng.range(1, 4));
                let (k0, s0, p0, d0) = g(&mut rng);
                let (k1, s1, p1, d1) = g(&mut rng);
                let act = *rng.pick(&ALL_ACTS);
                let l = match kind {
                    "conv" => LCfg::Conv { filters, kernel: (k0, k1), stride: (s0, s1), padding: (p0, p1), dilation: (d0, d1), act, dropout: None },
                    "deconv" => LCfg::Deconv { filters, kernel: (k0, k1), stride: (s0, s1), padding: (p0, p1), act, dropout: None },
                    _ => LCfg::Pool { kernel: (k0, k1), stride: (s0, s1) },
                };
                let mut layers = vec![l];
                // every third case: a dense layer behind it (flattening of a large output)
                if idx % 3 == 2 {
                    layers.push(LCfg::Dense { n: rng.range(1, 3), act: Act::Linear, bias: false, dropout: None });
                }
                let cfg = NetCfg::plain(Sh::Sp(c, h, w), layers);
                // bound the work (deconvolution outputs grow with the stride)
                let work: usize = cfg.shapes().map(|s| s.iter().map(|x| x.1.count()).sum::<usize>() * k0 * k1 * c).unwrap_or(0);
                if work > 250_000 {
                    out.nontrivial = false;
                    out.count("large_extent_cases_skipped_for_their_size", 1);
                    return out;
                }
                out.key = cfg.describe();
                out.cover("large_extents", format!("{} {}x{}", kind, h, w));
                out.count("large_extent_layers", 1);
                check_network(&cfg, &mut out, cfg.layers[0].kind());
            }
            "sequences" => {
                let mut o = NetOpts::standard();
                o.max_extent = 8;
                o.acts = ALL_ACTS.to_vec();
                let mut cfg = random_net(&mut rng, &o);
                if idx % 8 == 7 && cfg.layers.len() >= 2 {
                    // a block with internal skips (input / output skips, any accumulation)
                    if crate::gen::insert_block_skips(&mut rng, &mut cfg, 3) {
                        out.count("sequences_with_a_feedback_block_with_internal_skips", 1);
                    }
                } else if idx % 4 == 3 && cfg.layers.len() >= 2 {
                    insert_block(&mut rng, &mut cfg, 3);
                }
                out.key = cfg.describe();
                out.cover("architectures", cfg.architecture());
                check_network(&cfg, &mut out, "sequence");
                if idx < 3 {
                    out.sample = Some(J::obj().set("network", J::s(&cfg.describe())));
                }
            }
            "flat_sizes" => {
                let n = idx as usize + 1;
                out.key = format!("flat size {}", n);
                flat_size_case(n, &mut out);
                if n == 12 || n == 16 {
                    out.sample = Some(J::obj().set("flat_size", J::Int(n as i64)).set("perfect_square", J::Bool(isqrt(n) * isqrt(n) == n)));
                }
            }
            "large_flat_sizes" => {
                // perfect squares and their neighbours where single precision can no longer
                // represent the length exactly (> 2^24) - acceptance must still be exact
                out.key = "large flat sizes".into();
                let lin = activation::Activation::Linear;
                let mut n_checked = 0u64;
                for r in [4095usize, 4096, 4097, 4099, 5000, 5001, 8191, 8193, 10007, 46340, 46341, 65535, 65537, 100003] {
                    for d in [-3i64, -2, -1, 0, 1, 2, 3] {
                        let n = (r * r) as i64 + d;
                        let n = n as usize;
                        let rr = isqrt(n);
                        let square = rr * rr == n;
                        for kind in ["conv", "deconv", "pool"] {
                            n_checked += 1;
                            let created = guard(|| match kind {
                                "conv" => shape_dims(convolution::Convolution::create(Shape::Single(n), 1, &lin, (1, 1), (1, 1), (0, 0), (1, 1), None).verif_inputs()),
                                "deconv" => shape_dims(deconvolution::Deconvolution::create(Shape::Single(n), 1, &lin, (1, 1), (1, 1), (0, 0), None).verif_inputs()),
                                _ => shape_dims(maxpool::Maxpool::create(Shape::Single(n), (1, 1), (1, 1)).verif_inputs()),
                            });
                            match (square, created) {
                                (false, Ok(dims)) => out.viol(&format!("transition:{}:non-square-accepted", kind), format!("a {} layer accepted a flat input of {} elements (not a perfect square) and reads it as {:?}", kind, n, dims), J::obj().set("flat_size", J::Int(n as i64))),
                                (true, Err(m)) => out.viol(&format!("transition:{}:square-rejected", kind), format!("a {} layer rejected a flat input of {} = {} x {} elements: {}", kind, n, rr, rr, short(&m, 100)), J::obj().set("flat_size", J::Int(n as i64))),
                                (true, Ok(dims)) => {
                                    if dims != vec![1, rr, rr] {
                                        out.viol(&format!("transition:{}:flat-to-spatial-order", kind), format!("{} reads a flat input of {} elements as {:?}", kind, n, dims), J::Null);
                                    }
                                }
                                _ => {}
                            }
                        }
                    }
                }
                out.evals = n_checked;
                out.distinct = Some(n_checked);
                out.count("large_flat_sizes_x_layer_kinds", n_checked);
            }
            "flatten" => flatten_case(&mut rng, &mut out),
            "connections" => connection_case(&mut rng, &mut out),
            _ => panic!("unknown generator {}", gen),
        }
        out
    }
    fn finish(&self, _tier: Tier, _seed: u64, agg: &mut Agg) {
        agg.extra.push(("flat_sizes_exhaustive_1_to_1100".into(), J::Bool(agg.count("flat_sizes_x_layer_kinds") == 3300)));
        agg.require(agg.count("flat_sizes_x_layer_kinds") == 3300, "flat sizes not covered".into());
        agg.require(agg.count("layers_produced_vs_announced") >= 3000, "too few produced-vs-announced comparisons".into());
    }
}
