//! C03 — optimizer steps follow the documented update rules for every history.

use crate::core::*;
use crate::json::J;
use crate::lib_build::{flat, OptCfg};
use crate::monitors::c15::mk;
use crate::rng::Rng;
use neurons::tensor::Tensor;

pub struct C03;

/// Float abstraction so that the documented equations can be evaluated in f64 (the oracle) and in
/// f32 (conditioning probe: how far can a correct single-precision implementation drift?).
pub trait Fl: Copy {
    fn of(v: f64) -> Self;
    fn to(self) -> f64;
    fn add(self, o: Self) -> Self;
    fn sub(self, o: Self) -> Self;
    fn mul(self, o: Self) -> Self;
    fn div(self, o: Self) -> Self;
    fn sqrt(self) -> Self;
    fn powi(self, n: i32) -> Self;
    fn max0(self) -> Self;
}
impl Fl for f64 {
    fn of(v: f64) -> f64 {
        v
    }
    fn to(self) -> f64 {
        self
    }
    fn add(self, o: f64) -> f64 {
        self + o
    }
    fn sub(self, o: f64) -> f64 {
        self - o
    }
    fn mul(self, o: f64) -> f64 {
        self * o
    }
    fn div(self, o: f64) -> f64 {
        self / o
    }
    fn sqrt(self) -> f64 {
        f64::sqrt(self)
    }
    fn powi(self, n: i32) -> f64 {
        f64::powi(self, n)
    }
    fn max0(self) -> f64 {
        self.max(0.0)
    }
}
impl Fl for f32 {
    fn of(v: f64) -> f32 {
        v as f32
    }
    fn to(self) -> f64 {
        self as f64
    }
    fn add(self, o: f32) -> f32 {
        self + o
    }
    fn sub(self, o: f32) -> f32 {
        self - o
    }
    fn mul(self, o: f32) -> f32 {
        self * o
    }
    fn div(self, o: f32) -> f32 {
        self / o
    }
    fn sqrt(self) -> f32 {
        f32::sqrt(self)
    }
    fn powi(self, n: i32) -> f32 {
        f32::powi(self, n)
    }
    fn max0(self) -> f32 {
        self.max(0.0)
    }
}

#[derive(Clone, Copy, Default)]
pub struct St<F> {
    pub m: F,
    pub v: F,
    pub g: F,
    pub buf: F,
}

/// One element-wise step of the documented equations. Returns the conditioning factor of the
/// step (>= 1; large when the centred variance cancels).
pub fn model_step<F: Fl>(opt: &OptCfg, stepnr: i32, w: &mut F, grad: f64, st: &mut St<F>) -> f64 {
    let f = |x: f32| F::of(x as f64);
    let one = F::of(1.0);
    let mut g = F::of(grad);
    let mut kappa = 1.0;
    match opt {
        OptCfg::Sgd { lr, decay } => {
            if let Some(d) = decay {
                g = g.add(f(*d).mul(*w));
            }
            *w = w.sub(f(*lr).mul(g));
        }
        OptCfg::Sgdm { lr, momentum, dampening, decay } => {
            if let Some(d) = decay {
                g = g.add(f(*d).mul(*w));
            }
            if stepnr > 1 {
                st.v = st.v.mul(f(*momentum)).add(one.sub(f(*dampening)).mul(g));
                g = st.v;
            } else {
                st.v = g;
            }
            *w = w.sub(f(*lr).mul(g));
        }
        OptCfg::Adam { lr, b1, b2, eps, decay } => {
            if let Some(d) = decay {
                g = g.add(f(*d).mul(*w));
            }
            st.m = st.m.mul(f(*b1)).add(g.mul(one.sub(f(*b1))));
            st.v = st.v.mul(f(*b2)).add(g.mul(g).mul(one.sub(f(*b2))));
            let mh = st.m.div(one.sub(f(*b1).powi(stepnr)));
            let vh = st.v.div(one.sub(f(*b2).powi(stepnr)));
            *w = w.sub(f(*lr).mul(mh).div(vh.sqrt().add(f(*eps))));
        }
        OptCfg::AdamW { lr, b1, b2, eps, decay } => {
            *w = w.sub(f(*lr).mul(f(*decay)).mul(*w));
            st.m = st.m.mul(f(*b1)).add(g.mul(one.sub(f(*b1))));
            st.v = st.v.mul(f(*b2)).add(g.mul(g).mul(one.sub(f(*b2))));
            let mh = st.m.div(one.sub(f(*b1).powi(stepnr)));
            let vh = st.v.div(one.sub(f(*b2).powi(stepnr)));
            *w = w.sub(f(*lr).mul(mh).div(vh.sqrt().add(f(*eps))));
        }
        OptCfg::Rmsprop { lr, alpha, eps, decay, momentum, centered } => {
            if let Some(d) = decay {
                g = g.add(f(*d).mul(*w));
            }
            st.v = f(*alpha).mul(st.v).add(one.sub(f(*alpha)).mul(g.mul(g)));
            let mut v = st.v;
            if *centered {
                st.g = f(*alpha).mul(st.g).add(one.sub(f(*alpha)).mul(g));
                let c = v.sub(st.g.mul(st.g));
                // the exact value is >= 0 (Cauchy-Schwarz); rounding may take it below
                let denom = c.to().abs().max(1e-300);
                kappa = (v.to().abs() / denom).max(1.0);
                v = c.max0();
            }
            if let Some(mu) = momentum {
                st.buf = f(*mu).mul(st.buf).add(g.div(v.sqrt().add(f(*eps))));
                *w = w.sub(f(*lr).mul(st.buf));
            } else {
                *w = w.sub(f(*lr).mul(g).div(v.sqrt().add(f(*eps))));
            }
        }
    }
    kappa
}

fn gen_opt(rng: &mut Rng, kind: usize, flags: usize) -> OptCfg {
    let lr = rng.log_in(1e-4, 1.0) as f32;
    let decay = if flags & 1 == 1 { Some(rng.log_in(1e-5, 0.1) as f32) } else { None };
    let beta = |rng: &mut Rng| *rng.pick(&[0.5f32, 0.8, 0.9, 0.95, 0.99, 0.999]);
    let eps = rng.log_in(1e-10, 1e-3) as f32;
    match kind {
        0 => OptCfg::Sgd { lr, decay },
        1 => OptCfg::Sgdm {
            lr,
            momentum: *rng.pick(&[0.1f32, 0.5, 0.9, 0.99]),
            dampening: if flags & 2 == 2 { rng.f32_in(0.05, 0.9) } else { 0.0 },
            decay,
        },
        2 => OptCfg::Adam { lr, b1: beta(rng), b2: beta(rng), eps, decay },
        3 => OptCfg::AdamW { lr, b1: beta(rng), b2: beta(rng), eps, decay: rng.log_in(1e-4, 0.1) as f32 },
        _ => OptCfg::Rmsprop {
            lr,
            alpha: *rng.pick(&[0.5f32, 0.9, 0.99]),
            eps,
            decay,
            momentum: if flags & 2 == 2 { Some(*rng.pick(&[0.1f32, 0.5, 0.9])) } else { None },
            centered: flags & 4 == 4,
        },
    }
}

const FAMILIES: [&str; 7] = ["normal", "constant", "sparse", "sign-flipping", "tiny", "large", "mixture"];

fn gradient(rng: &mut Rng, fam: usize, t: usize, base: f32) -> f32 {
    match fam {
        0 => rng.normal() as f32,
        1 => base,
        2 => {
            if rng.chance(0.9) {
                0.0
            } else {
                rng.normal() as f32
            }
        }
        3 => {
            if t % 2 == 0 {
                base
            } else {
                -base
            }
        }
        4 => (rng.normal() * rng.log_in(1e-12, 1e-6)) as f32,
        5 => (rng.normal() * rng.log_in(1e3, 1e6)) as f32,
        _ => {
            let f = rng.range(0, 5);
            gradient(rng, f, t, base)
        }
    }
}

struct Slot {
    layer: usize,
    filter: usize,
    bias: bool,
    dims: Vec<usize>,
    w0: Vec<f32>,
    fam: usize,
    base: Vec<f32>,
    /// step-number sequence kind: 0 constant 1, 1 constant k, 2 increasing by one, 3 jumping
    stepkind: usize,
    twin_of: Option<usize>,
}

fn stepnr_at(kind: usize, t: usize, k: i32) -> i32 {
    match kind {
        0 => 1,
        1 => k,
        2 => 1 + t as i32,
        _ => 1 + (t as i32) * k / 2 + (t as i32 % 3),
    }
}

fn dims_of(rng: &mut Rng, rank: usize, n: Option<usize>) -> Vec<usize> {
    match (rank, n) {
        (1, Some(n)) => vec![n],
        (2, Some(n)) => {
            let r = (1..=n).filter(|r| n % r == 0).nth(rng.range(0, 1)).unwrap_or(1);
            vec![r, n / r]
        }
        (3, Some(n)) => {
            let a = (1..=n).filter(|r| n % r == 0).nth(rng.range(0, 1)).unwrap_or(1);
            let rest = n / a;
            let b = (1..=rest).filter(|r| rest % r == 0).nth(rng.range(0, 1)).unwrap_or(1);
            vec![a, b, rest / b]
        }
        (r, None) => (0..r).map(|_| rng.range(1, 3)).collect(),
        _ => unreachable!(),
    }
}

impl Monitor for C03 {
    fn id(&self) -> &'static str {
        "C03"
    }
    fn gens(&self, tier: Tier) -> Vec<(&'static str, u64)> {
        vec![("histories", tier.pick(80_000, 1_600_000)), ("long", tier.pick(200, 2000)), ("block_slots", tier.pick(4_000, 80_000)), ("block_defaults", tier.pick(4_000, 80_000)), ("learn_calls", tier.pick(3_000, 60_000))]
    }
    fn rule(&self) -> &'static str {
        "case = one optimizer instance (kind x {decay, momentum/dampening, centred} flags enumerated by the case index; lr log-uniform in [1e-4,1], betas/alpha/momentum from valid grids, eps in [1e-10,1e-3]) owning 2..10 parameter slots laid out over 1..3 layers x 1..3 filters x {weight,bias} with ranks 1..3; three slots carry the same numbers as vector / matrix / 3-D tensor (rank probe; 4..12 elements, in every fourth block of cases 33..129 rows x 1..3 columns); every slot has its own gradient family (normal, constant, sparse, sign-flipping, tiny 1e-12..1e-6, large 1e3..1e6, mixture) and step-number sequence (constant 1, constant k, +1 per step, jumping; k in 2..9 or, in every sixth case, 100 / 1000 / 100000); slots are updated in a random interleaving for 1..400 steps (long: 2000). After EVERY update the slot's values are compared with the documented equations evaluated per element in f64 (tolerance 1e-4 x distance travelled + 1e-7 + 8 x drift of the same equations evaluated in f32), must be finite, and the three rank-probe slots must agree. Distinct = distinct (optimizer configuration, layout) descriptors; for Adam / AdamW every sixteenth case gives some of learning rate / beta1 / beta2 / epsilon as 0 (\"use the default\"): the trajectory must then follow the documented equations with the documented defaults 0.001 / 0.9 / 0.999 / 1e-8 (the only optimizers whose documented defaults and validate() agree). block_slots: the optimizer slots of the unrolled copies of a feedback block (allocated by Feedback::copy_optimizer, addressed by Feedback::update) are observed through training: chain networks with one block (1..4 loops, mean coupling), all five optimizers, learn() against a twin in which every unrolled copy takes one step of the documented rule with its OWN state on the sum of its own per-sample gradients before the copies are averaged (C04's block twin; tolerance as there). State shared or mixed between copies shows as a weight difference. block_defaults: a chain network and the same network with one layer wrapped into a one-loop feedback block are trained with an optimizer some of whose hyper-parameters (learning rate, momentum / beta1, beta2 / alpha, epsilon) are given as 0, the value Optimizer::validate replaces by a default: whatever the defaults are, block and top-level layers must have been given the same ones - final weights and epoch losses agree (1e-3 relative to the weight change). learn_calls: two consecutive learn() calls on one network (all five optimizers, random networks and data; the second call with another batch size and a prefix of the samples) against C04's twin trainer, which carries weights AND optimizer state from the first call into the second while the step number restarts at 1 (in every second case a newly created optimizer of the same kind, half the learning rate, is installed between the calls: the twin then starts from fresh state - nothing of the replaced optimizer may survive): the weights after each call must agree (tolerance as in C04)."
    }
    fn assumptions(&self) -> Vec<&'static str> {
        vec![
            "the doc comments of optimizer.rs are the specification (SGDM uses `stepnr > 1` for the momentum branch, Adam/AdamW bias-correct with the given step number)",
            "hyper-parameter value 0 is a sentinel that validate() replaces by a default; the defaults themselves are not judged (the doc comments and validate() disagree about them), only that a block and top-level layers receive the same ones (block_defaults)",
            "where the f32 evaluation of the documented equations itself drifts (centred RMSprop with cancelling variance) the comparison degrades to finiteness, as stated in DESIGN.md 2.4",
        ]
    }
    fn run(&self, gen: &str, seed: u64, idx: u64, _tier: Tier) -> Out {
        if gen == "block_slots" {
            // the slots of the unrolled copies of a feedback block (sized by
            // Feedback::copy_optimizer, addressed by Feedback::update): every copy steps with its
            // own state. The twin trainer of C04 models exactly that; here it runs under C03.
            let mut out = crate::monitors::c04::block_twin(seed, idx);
            for v in out.viols.iter_mut() {
                v.sig = v.sig.replace("train:block-twin", "opt:block-slots");
            }
            if out.nontrivial {
                out.count("feedback_block_trainings_with_per_copy_optimizer_state", 1);
            }
            return out;
        }
        if gen == "learn_calls" {
            // the optimizer state must survive from one learn() call to the next on the same
            // network (the step number restarts, the running statistics do not): C04's twin
            // trainer goes through two consecutive learn() calls; only its weight comparisons are
            // taken over here
            let mut out = crate::core::Monitor::run(&crate::monitors::c04::C04, "runs", seed, idx * 3, _tier);
            out.viols.retain(|v| v.sig.starts_with("train:weights"));
            for v in out.viols.iter_mut() {
                v.sig = v.sig.replace("train:weights", "opt:learn-calls:weights");
            }
            return out;
        }
        if gen == "block_defaults" {
            // hyper-parameters given as 0 are replaced by defaults (Optimizer::validate); the
            // optimizer copy a feedback block steps with must have received the same values as
            // the one top-level layers step with: a layer inline and the same layer as a one-loop
            // block are trained with such an optimizer and must arrive at the same weights
            let mut out = crate::monitors::c04::block_inline_with(seed, idx, true);
            for v in out.viols.iter_mut() {
                v.sig = v.sig.replace("train:block-inline", "opt:block-defaults");
            }
            return out;
        }
        let mut rng = Rng::stream(seed, gen, idx);
        let kind = (idx % 5) as usize;
        let flags = ((idx / 5) % 8) as usize;
        let opt = gen_opt(&mut rng, kind, flags);
        let steps = if gen == "long" { 2000 } else { *rng.pick(&[1usize, 2, 3, 5, 10, 30, 100, 400]) };
        // mostly small step numbers; every sixth case large ones (bias corrections 1 - beta^t
        // saturate, beta^t underflows)
        let kconst = if idx % 6 == 5 { *rng.pick(&[100i32, 1000, 100_000]) } else { rng.range(2, 9) as i32 };

        // layout
        let layers = rng.range(1, 3);
        let mut slots: Vec<Slot> = Vec::new();
        let mut state: Vec<Vec<Vec<Tensor>>> = Vec::new();
        for l in 0..layers {
            let filters = rng.range(1, 3);
            let with_bias = rng.bool();
            let mut per_layer = Vec::new();
            for f in 0..filters {
                let mut per_filter = Vec::new();
                for b in 0..(if with_bias { 2 } else { 1 }) {
                    let rank = rng.range(1, 3);
                    let dims = dims_of(&mut rng, rank, None);
                    let n: usize = dims.iter().product();
                    per_filter.push(mk(&dims, &vec![0.0; n]));
                    let fam = rng.range(0, 6);
                    slots.push(Slot {
                        layer: l,
                        filter: f,
                        bias: b == 1,
                        dims,
                        w0: (0..n).map(|_| rng.f32_in(-2.0, 2.0)).collect(),
                        fam,
                        base: (0..n).map(|_| rng.f32_in(-3.0, 3.0)).collect(),
                        stepkind: rng.range(0, 3),
                        twin_of: None,
                    });
                }
                per_layer.push(per_filter);
            }
            state.push(per_layer);
        }
        // rank probe: one extra layer with three filters holding the same numbers in three ranks
        // every fourth block of cases: a large probe (matrix with 33..129 rows: row-blocked or
        // parallel update loops have a remainder there)
        let big_probe = (idx / 40) % 4 == 3;
        let (big_r, big_c) = (*rng.pick(&[33usize, 35, 47, 65, 100, 129]), rng.range(1, 3));
        let n = if big_probe { big_r * big_c } else { *rng.pick(&[4usize, 6, 8, 12]) };
        let w0: Vec<f32> = (0..n).map(|_| rng.f32_in(-2.0, 2.0)).collect();
        let base: Vec<f32> = (0..n).map(|_| rng.f32_in(-3.0, 3.0)).collect();
        let fam = rng.range(0, 6);
        let stepkind = rng.range(0, 3);
        let first_probe = slots.len();
        let mut probe_layer = Vec::new();
        for r in 1..=3usize {
            let dims = if big_probe {
                match r {
                    1 => vec![n],
                    2 => vec![big_r, big_c],
                    _ => vec![big_r, 1, big_c],
                }
            } else {
                dims_of(&mut rng, r, Some(n))
            };
            probe_layer.push(vec![mk(&dims, &vec![0.0; n])]);
            slots.push(Slot {
                layer: layers,
                filter: r - 1,
                bias: false,
                dims,
                w0: w0.clone(),
                fam,
                base: base.clone(),
                stepkind,
                twin_of: if r == 1 { None } else { Some(first_probe) },
            });
        }
        state.push(probe_layer);

        let desc = format!("{} flags{} slots{} steps{}", opt.describe(), flags, slots.len(), steps);
        let mut out = Out::new(desc.clone());
        out.cover("optimizer_flags", format!("{}/{}", opt.name(), flags));
        out.cover("step_counts", steps.to_string());
        if big_probe {
            out.count("cases_with_a_large_rank_probe", 1);
        }
        // Adam / AdamW, every sixteenth case: some of learning rate, beta1, beta2, epsilon are
        // given as 0, the value that stands for "use the default". For these two optimizers the
        // documented defaults (0.001, 0.9, 0.999, 1e-8) are also the ones validate() substitutes,
        // so the trajectory must be that of the documented equations with those values. (For
        // SGD, SGDM and RMSprop the doc comments and validate() disagree about the defaults; no
        // value is asserted there.)
        let mut lib_opt = opt.clone();
        if (idx / 40) % 16 == 7 {
            let mask = rng.range(1, 15);
            match &mut lib_opt {
                OptCfg::Adam { lr, b1, b2, eps, .. } | OptCfg::AdamW { lr, b1, b2, eps, .. } => {
                    if mask & 1 == 1 {
                        *lr = 0.0;
                    }
                    if mask & 2 == 2 {
                        *b1 = 0.0;
                    }
                    if mask & 4 == 4 {
                        *b2 = 0.0;
                    }
                    if mask & 8 == 8 {
                        *eps = 0.0;
                    }
                    out.count("adam_cases_with_hyper_parameters_left_at_their_documented_defaults", 1);
                }
                _ => {}
            }
        }
        let opt = match (&opt, &lib_opt) {
            (OptCfg::Adam { lr, b1, b2, eps, decay }, OptCfg::Adam { lr: l2, b1: c1, b2: c2, eps: e2, .. }) => OptCfg::Adam { lr: if *l2 == 0.0 { 0.001 } else { *lr }, b1: if *c1 == 0.0 { 0.9 } else { *b1 }, b2: if *c2 == 0.0 { 0.999 } else { *b2 }, eps: if *e2 == 0.0 { 1e-8 } else { *eps }, decay: *decay },
            (OptCfg::AdamW { lr, b1, b2, eps, decay }, OptCfg::AdamW { lr: l2, b1: c1, b2: c2, eps: e2, .. }) => OptCfg::AdamW { lr: if *l2 == 0.0 { 0.001 } else { *lr }, b1: if *c1 == 0.0 { 0.9 } else { *b1 }, b2: if *c2 == 0.0 { 0.999 } else { *b2 }, eps: if *e2 == 0.0 { 1e-8 } else { *eps }, decay: *decay },
            _ => opt.clone(),
        };
        let mut o = lib_opt.build();
        // every fourth case: a second optimizer instance of the same kind (other hyper-parameters
        // by the same generator) is updated on the same slots in between - instances share nothing
        let mut decoy = if idx % 4 == 2 {
            let mut d = crate::train::gen_optimizer(&mut rng, (idx % 5) as usize).build();
            let st2 = state.clone();
            if guard(|| d.validate(st2)).is_ok() {
                out.count("cases_with_a_second_optimizer_instance_updated_in_between", 1);
                Some(d)
            } else {
                None
            }
        } else {
            None
        };
        if let Err(m) = guard(|| o.validate(state)) {
            out.viol(&format!("opt:{}:validate-panic", opt.name()), format!("validate panicked: {}", short(&m, 160)), J::s(&desc));
            return out;
        }

        // per-slot live values and reference states
        let mut live: Vec<Tensor> = slots.iter().map(|s| mk(&s.dims, &s.w0)).collect();
        let mut ref64: Vec<Vec<(f64, St<f64>)>> = slots.iter().map(|s| s.w0.iter().map(|w| (*w as f64, St::default())).collect()).collect();
        let mut ref32: Vec<Vec<(f32, St<f32>)>> = slots.iter().map(|s| s.w0.iter().map(|w| (*w, St::default())).collect()).collect();
        let mut travel: Vec<Vec<f64>> = slots.iter().map(|s| vec![0.0; s.w0.len()]).collect();
        let mut done: Vec<usize> = vec![0; slots.len()];
        // gradient streams: twins share the stream of their original
        let mut streams: Vec<Rng> = (0..slots.len()).map(|i| Rng::stream(seed ^ 0xabcdef, gen, idx * 64 + slots[i].twin_of.unwrap_or(i) as u64)).collect();
        let mut failed: Vec<bool> = vec![false; slots.len()];
        let mut worst_kappa = 1.0f64;
        let mut compared = 0u64;
        let mut bit_equal_ranks = 0u64;

        let total = steps * slots.len();
        let mut order: Vec<usize> = (0..total).map(|i| i % slots.len()).collect();
        rng.shuffle(&mut order);
        for si in order {
            let s = &slots[si];
            let t = done[si];
            done[si] += 1;
            let stepnr = stepnr_at(s.stepkind, t, kconst);
            let n = s.w0.len();
            let grads: Vec<f32> = (0..n).map(|i| gradient(&mut streams[si], s.fam, t, s.base[i])).collect();
            let mut gt = mk(&s.dims, &grads);
            if let Some(d) = decoy.as_mut() {
                if rng.bool() {
                    let mut dw = mk(&s.dims, &(0..n).map(|_| rng.f32_in(-1.0, 1.0)).collect::<Vec<f32>>());
                    let mut dg = mk(&s.dims, &(0..n).map(|_| rng.f32_in(-1.0, 1.0)).collect::<Vec<f32>>());
                    let dstep = rng.range(1, 50) as i32;
                    let _ = guard(|| d.update(s.layer, s.filter, s.bias, dstep, &mut dw, &mut dg));
                }
            }
            let r = guard(|| o.update(s.layer, s.filter, s.bias, stepnr, &mut live[si], &mut gt));
            if let Err(m) = r {
                if !failed[si] {
                    failed[si] = true;
                    out.viol(&format!("opt:{}:update-panic", opt.name()), format!("update(layer {}, filter {}, bias {}, step {}) panicked at step {}: {}", s.layer, s.filter, s.bias, stepnr, t, short(&m, 160)), J::s(&desc));
                }
                continue;
            }
            let got = flat(&live[si]);
            for i in 0..n {
                let before = ref64[si][i].0;
                let (mut w64, mut st64) = ref64[si][i];
                let k = model_step(&opt, stepnr, &mut w64, grads[i] as f64, &mut st64);
                ref64[si][i] = (w64, st64);
                worst_kappa = worst_kappa.max(k);
                let (mut w32, mut st32) = ref32[si][i];
                model_step(&opt, stepnr, &mut w32, grads[i] as f64, &mut st32);
                ref32[si][i] = (w32, st32);
                travel[si][i] += (ref64[si][i].0 - before).abs();
            }
            if failed[si] {
                continue;
            }
            for i in 0..n {
                let want = ref64[si][i].0;
                compared += 1;
                if !got[i].is_finite() && !ref32[si][i].0.is_finite() {
                    // The documented equations evaluated in single precision diverge as well
                    // (unstable hyper-parameter combination, e.g. lr*decay/eps >> 1 once the
                    // centred variance has collapsed): not "moderate magnitude", no verdict.
                    failed[si] = true;
                    out.count("slots_where_the_f32_reference_diverges_too_not_judged", 1);
                    break;
                }
                if !got[i].is_finite() {
                    failed[si] = true;
                    let centred = matches!(opt, OptCfg::Rmsprop { centered: true, .. });
                    let sig = if got[i].is_nan() && centred { "opt:RMSprop:not-finite:centered".to_string() } else { format!("opt:{}:not-finite", opt.name()) };
                    out.viol(
                        &sig,
                        format!("{} parameter became {} at step {} (gradient family {}, exact value {:e})", opt.name(), got[i], t + 1, FAMILIES[s.fam], want),
                        J::obj().set("optimizer", J::s(&opt.describe())).set("family", J::s(FAMILIES[s.fam])).set("step", J::Int(t as i64 + 1)).set("w0", J::f(s.w0[i] as f64)).set("last_gradient", J::f(grads[i] as f64)),
                    );
                    break;
                }
                let drift = {
                    let d = (ref32[si][i].0 as f64 - want).abs();
                    if d.is_finite() {
                        d
                    } else {
                        f64::INFINITY
                    }
                };
                let tol = 1e-4 * (want.abs() + travel[si][i]) + 1e-7 + 8.0 * drift;
                if (got[i] as f64 - want).abs() > tol {
                    failed[si] = true;
                    out.viol(
                        &format!("opt:{}:trajectory", opt.name()),
                        format!("{} step {} (stepnr {}) slot (layer {}, filter {}, bias {}, rank {}) element {}: {:e}, documented equations give {:e} (tolerance {:e}; family {})", opt.name(), t + 1, stepnr, s.layer, s.filter, s.bias, s.dims.len(), i, got[i], want, tol, FAMILIES[s.fam]),
                        J::obj().set("optimizer", J::s(&opt.describe())).set("step", J::Int(t as i64 + 1)).set("stepnr", J::Int(stepnr as i64)).set("rank", J::Int(s.dims.len() as i64)),
                    );
                    break;
                }
            }
            // rank probe: compare with the original once both have made the same number of steps
            if let Some(orig) = s.twin_of {
                if done[orig] == done[si] && !failed[orig] && !failed[si] {
                    let a = flat(&live[orig]);
                    let b = flat(&live[si]);
                    if crate::lib_build::bits_eq(&a, &b) {
                        bit_equal_ranks += 1;
                    }
                    for i in 0..n {
                        let drift = (ref32[si][i].0 as f64 - ref64[si][i].0).abs();
                        let tol = 2e-5 * (ref64[si][i].0.abs() + travel[si][i]) + 1e-7 + 8.0 * if drift.is_finite() { drift } else { f64::INFINITY };
                        if (a[i] as f64 - b[i] as f64).abs() > tol {
                            failed[si] = true;
                            out.viol(
                                &format!("opt:{}:rank-dependence", opt.name()),
                                format!("{}: the same history gives {:e} for the vector layout and {:e} for the rank-{} layout (step {})", opt.name(), a[i], b[i], s.dims.len(), t + 1),
                                J::s(&desc),
                            );
                            break;
                        }
                    }
                }
            }
        }
        out.count("optimizer_steps_observed", total as u64);
        out.count("elements_compared_with_model", compared);
        out.count("rank_probe_comparisons_bit_identical", bit_equal_ranks);
        if worst_kappa > 1e3 {
            out.count("histories_with_ill_conditioned_centred_variance", 1);
        }
        for s in slots.iter() {
            out.cover("gradient_families", FAMILIES[s.fam].to_string());
            out.cover("rank_stepkind", format!("rank{}/steps{}", s.dims.len(), s.stepkind));
        }
        if idx < 5 {
            out.sample = Some(
                J::obj()
                    .set("optimizer", J::s(&opt.describe()))
                    .set("steps_per_slot", J::Int(steps as i64))
                    .set("slots", J::Arr(slots.iter().map(|s| J::s(&format!("layer{} filter{} bias{} dims{:?} family {} stepkind {}", s.layer, s.filter, s.bias, s.dims, FAMILIES[s.fam], s.stepkind))).collect())),
            );
        }
        out
    }
    fn finish(&self, _tier: Tier, _seed: u64, agg: &mut Agg) {
        agg.require(agg.set_size("optimizer_flags") >= 40, format!("only {} optimizer/flag combinations", agg.set_size("optimizer_flags")));
        agg.require(agg.set_size("gradient_families") == 7, "gradient families not all exercised".into());
        agg.require(agg.count("optimizer_steps_observed") >= 100_000, "too few optimizer steps observed".into());
    }
}
