//! C01 — back-propagated gradients are the true derivatives.

use crate::cfg::*;
use crate::core::*;
use crate::gen::*;
use crate::json::J;
use crate::lib_build::*;
use crate::monitors::c02::sh_dims;
use crate::refmodel::*;
use crate::rng::Rng;
use neurons::network::{Layer, Network};
use neurons::objective;
use neurons::tensor::{Data, Tensor};

pub struct C01;

pub const REL_M: f64 = 1e-5;
pub const K_DE: f64 = 16.0;

/// Tolerance for one gradient entry: a multiple of the first-order bound on what a correct
/// single-precision implementation can deviate (rounding of the summed terms AND the effect of
/// forward rounding errors on the derivative factors), plus 1e-5 of the summed magnitude.
pub fn grad_tol(d: &D) -> f64 {
    let t = K_DE * d.de + REL_M * d.m + 1e-30;
    if t.is_nan() {
        f64::INFINITY
    } else {
        t
    }
}

pub fn grad_ok(got: f32, d: &D) -> bool {
    got.is_finite() && (got as f64 - d.d).abs() <= grad_tol(d)
}

/// Records how much of the tolerance an accepted entry used (evidence of the margin).
pub fn margin(out: &mut Out, got: f32, d: &D, extra: f64) {
    let dev = ((got as f64 - d.d).abs() - extra).max(0.0);
    if d.m > 0.0 {
        let loose = K_DE * d.de / d.m;
        if loose > 0.1 {
            out.count("entries_whose_tolerance_exceeds_10%_of_the_term_magnitude", 1);
        } else if loose > 0.01 {
            out.count("entries_whose_tolerance_is_1%_to_10%_of_the_term_magnitude", 1);
        }
    }
    let unit = d.de + REL_M * d.m / K_DE + 1e-32;
    let r = dev / unit;
    if r > 16.0 && std::env::var("NV_DEBUG").is_ok() {
        eprintln!("MARGIN r={:.1} got={:e} d={:e} m={:e} de={:e} key={}", r, got, d.d, d.m, d.de, out.key);
    }
    if r > 16.0 {
        out.count("accepted_entries_using_more_than_a_quarter_of_the_tolerance", 1);
    } else if r > 4.0 {
        out.count("accepted_entries_using_1/16_to_1/4_of_the_tolerance", 1);
    }
}

/// Away from kinks, max-pool ties and sigmoid saturation (where y(1-y) loses relative accuracy
/// in single precision)?
pub fn well_conditioned(cfg_layers: &[LCfg], tr: &Trace<f64>) -> bool {
    well_conditioned_g(cfg_layers, tr, tr.gap)
}

/// The pool-tie margin of a network evaluated with dual numbers along a random direction in the
/// space of all parameters and inputs: window elements that are the same local function (equal
/// value and equal directional derivative, e.g. convolution outputs over a flat background) do
/// not count as ties - the maximum is differentiable there.
pub fn structural_gap(rng: &mut Rng, cfg: &NetCfg, params: &[P], x: &[f32]) -> f64 {
    let mut dir = |v: f64| {
        let mut t = D::var(v);
        t.d = rng.f64_in(-1.0, 1.0);
        t
    };
    let net: RNet<D> = RNet::build(cfg, params, &mut |_, _, _, v| dir(v as f64));
    let mut xin = Val::<D>::from_f32(cfg.input, x);
    for (k, t) in xin.d.iter_mut().enumerate() {
        // the inputs are not variables of the parameter gradients: a fixed pseudo-direction
        // would make equal pixels differ, so they stay constant
        let _ = k;
        t.d = 0.0;
    }
    net.forward(&xin).gap
}

pub fn well_conditioned_g(cfg_layers: &[LCfg], tr: &Trace<f64>, gap: f64) -> bool {
    if tr.kink < 1e-3 || gap < 1e-3 {
        return false;
    }
    let sat = |act: Option<Act>, pre: &Val<f64>| -> bool { act == Some(Act::Sigmoid) && pre.d.iter().any(|v| *v > 6.0) || act == Some(Act::Tanh) && pre.d.iter().any(|v| v.abs() > 8.0) };
    for (i, l) in cfg_layers.iter().enumerate() {
        match l {
            LCfg::Feedback { body, .. } => {
                if let Some(bt) = &tr.blocks[i] {
                    for (q, st) in bt.steps.iter().enumerate() {
                        if sat(body[q % body.len()].act(), &st.pre) {
                            return false;
                        }
                    }
                }
            }
            _ => {
                if let Some(st) = &tr.steps[i] {
                    if sat(l.act(), &st.pre) {
                        return false;
                    }
                }
            }
        }
    }
    true
}

/// All parameter coordinates (layer, copy, flat index) of a configuration.
pub fn coords(cfg: &NetCfg, params: &[P]) -> Vec<(usize, usize, usize)> {
    let mut out = Vec::new();
    for (li, (l, p)) in cfg.layers.iter().zip(params.iter()).enumerate() {
        let copies = match l {
            LCfg::Feedback { loops, .. } => *loops,
            _ => 1,
        };
        for c in 0..copies {
            for i in 0..p.count() {
                out.push((li, c, i));
            }
        }
    }
    out
}

/// d/d(param) of `scalar(output)` for every parameter coordinate.
pub fn ref_param_grads(cfg: &NetCfg, params: &[P], x: &[f32], scalar: &dyn Fn(&Val<D>) -> D) -> Vec<((usize, usize, usize), D)> {
    let xin = Val::<D>::from_f32(cfg.input, x);
    coords(cfg, params)
        .into_iter()
        .map(|co| {
            let net: RNet<D> = RNet::build(cfg, params, &mut |l, c, i, v| if (l, c, i) == co { D::var(v as f64) } else { D::c(v as f64) });
            let tr = net.forward(&xin);
            (co, scalar(tr.output()))
        })
        .collect()
}

/// The same for a chosen subset of the coordinates (large layers).
pub fn ref_param_grads_at(cfg: &NetCfg, params: &[P], x: &[f32], scalar: &dyn Fn(&Val<D>) -> D, which: &[(usize, usize, usize)]) -> Vec<((usize, usize, usize), D)> {
    let xin = Val::<D>::from_f32(cfg.input, x);
    which
        .iter()
        .map(|co| {
            let co = *co;
            let net: RNet<D> = RNet::build(cfg, params, &mut |l, c, i, v| if (l, c, i) == co { D::var(v as f64) } else { D::c(v as f64) });
            let tr = net.forward(&xin);
            (co, scalar(tr.output()))
        })
        .collect()
}

/// All indices below `n`, or - for large `n` - the ones next to the block boundaries
/// (0, 1, 31..33, 63..65, ..., n-2, n-1) plus random ones, `limit` in total.
pub fn pick_indices(rng: &mut Rng, n: usize, limit: usize) -> Vec<usize> {
    if n <= limit {
        return (0..n).collect();
    }
    let mut v: Vec<usize> = vec![0, 1, n - 2, n - 1];
    for b in [32usize, 64, 128, 256, 512, 1024, 2048, 4096, 8192] {
        for d in [b - 1, b, b + 1] {
            if d < n {
                v.push(d);
            }
        }
        if n > b {
            v.push(n - n % b); // start of the last (partial) block
            v.push(n - n % b - 1);
        }
    }
    v.retain(|i| *i < n);
    v.sort();
    v.dedup();
    while v.len() > limit {
        let k = rng.range(0, v.len() - 1);
        v.remove(k);
    }
    while v.len() < limit {
        let k = rng.range(0, n - 1);
        if !v.contains(&k) {
            v.push(k);
        }
    }
    v
}

/// The library's gradient entry for a parameter coordinate, from the reversed per-layer lists
/// returned by `verif_backward`.
pub fn lib_grad_at(net: &Network, cfg: &NetCfg, wg: &[Tensor], bg: &[Option<Tensor>], co: (usize, usize, usize)) -> Option<f32> {
    let n = cfg.layers.len();
    let (li, copy, idx) = co;
    let (w, b) = (&wg[n - 1 - li], &bg[n - 1 - li]);
    let pick = |layer: &Layer, w: &Tensor, b: Option<&Tensor>, idx: usize| -> Option<f32> {
        match layer {
            Layer::Dense(d) => {
                let nw = flat(d.verif_weights()).len();
                if idx < nw {
                    flat(w).get(idx).cloned()
                } else {
                    b.and_then(|b| flat(b).get(idx - nw).cloned())
                }
            }
            Layer::Convolution(_) | Layer::Deconvolution(_) => flat(w).get(idx).cloned(),
            _ => None,
        }
    };
    match (&net.layers[li], &cfg.layers[li]) {
        (Layer::Feedback(block), LCfg::Feedback { body, .. }) => {
            // nested, reversed over the unrolled layers; find the body layer holding `idx`
            let ws = match &w.data {
                Data::Nested(v) => v,
                _ => return None,
            };
            let bs: Vec<Option<Tensor>> = match b {
                Some(t) => match &t.data {
                    Data::NestedOptional(v) => v.clone(),
                    _ => return None,
                },
                None => return None,
            };
            let total = block.layers.len();
            let mut rest = idx;
            for (q, inner) in block.layers.iter().enumerate().skip(copy * body.len()).take(body.len()) {
                let cnt = match inner {
                    Layer::Dense(d) => flat(d.verif_weights()).len() + d.verif_bias().map(|b| flat(b).len()).unwrap_or(0),
                    Layer::Convolution(c) => c.verif_kernels().iter().map(|k| flat(k).len()).sum(),
                    Layer::Deconvolution(c) => c.verif_kernels().iter().map(|k| flat(k).len()).sum(),
                    _ => 0,
                };
                if rest < cnt {
                    return pick(inner, &ws[total - 1 - q], bs[total - 1 - q].as_ref(), rest);
                }
                rest -= cnt;
            }
            None
        }
        (layer, _) => pick(layer, w, b.as_ref(), idx),
    }
}

fn lib_loss_grad(obj: Obj, pred: &Tensor, target: &Tensor) -> (f32, Tensor) {
    objective::Function::create(lib_obj(obj), None).loss(pred, target)
}

fn detail(cfg: &NetCfg, params: &[P], x: &[f32]) -> J {
    J::obj().set("network", J::s(&cfg.describe())).set("parameters", params_json(params)).set("input", J::f32s(x))
}

// ---------------------------------------------------------------------------------------

/// Sets a random subset of the values to exactly 0.0 ("sparse" data: black image background,
/// pruned weights) - value-dependent shortcuts in a backward pass show up here.
fn sparsify(rng: &mut Rng, v: &mut [f32], p: f64) {
    for x in v.iter_mut() {
        if rng.chance(p) {
            *x = 0.0;
        }
    }
}

fn sparsify_params(rng: &mut Rng, params: &mut [P], p: f64) {
    for q in params.iter_mut() {
        let mut v = q.flat();
        sparsify(rng, &mut v, p);
        q.set_flat(&v);
    }
}

fn layer_case(rng: &mut Rng, idx: u64, out: &mut Out) {
    let kinds = ["conv", "deconv", "dense", "pool", "conv", "deconv"];
    let kind = kinds[(idx % 6) as usize];
    let act = ELEMENTWISE[((idx / 6) % 5) as usize];
    let (l, input) = if kind == "dense" {
        (
            LCfg::Dense {
                n: rng.range(1, 6),
                act,
                bias: rng.bool(),
                dropout: None,
            },
            Sh::Flat(rng.range(1, 8)),
        )
    } else {
        spatial_layer_case(rng, idx / 6, kind, 7, act)
    };
    // every fourth block of cases: inputs, parameters and upstream gradient with exact zeros
    layer_grad_check(rng, kind, l, input, (idx / 30) % 4 == 3, usize::MAX, idx < 6, out);
}

/// Layers that are large in one direction (see C02's `large` generator); the derivative is
/// compared at up to 40 input and 40 parameter coordinates next to block boundaries.
fn large_layer_case(rng: &mut Rng, idx: u64, out: &mut Out) {
    use crate::monitors::c02::THRESHOLDS;
    let kinds = ["dense", "conv", "deconv", "pool"];
    let kind = kinds[(idx % 4) as usize];
    let act = ELEMENTWISE[((idx / 4) % 5) as usize];
    for _ in 0..200 {
        let (l, input) = if kind == "dense" {
            let (n_in, n_out) = match rng.range(0, 2) {
                0 => (*rng.pick(&THRESHOLDS[..21]), rng.range(1, 3)),
                1 => (rng.range(1, 5), *rng.pick(&THRESHOLDS[..18])),
                _ => (*rng.pick(&THRESHOLDS[..11]), *rng.pick(&THRESHOLDS[..11])),
            };
            (LCfg::Dense { n: n_out, act, bias: rng.bool(), dropout: None }, Sh::Flat(n_in))
        } else {
            let big = *rng.pick(&THRESHOLDS[..11]);
            let small = rng.range(1, 4);
            let (h, w) = if rng.bool() { (big, small) } else { (small, big) };
            let c = *rng.pick(&[1usize, 2, 3, 8, 9]);
            let filters = *rng.pick(&[1usize, 2, 4, 5, 9]);
            let g = |rng: &mut Rng| (rng.range(1, 5), rng.range(1, 4), rng.range(0, 3), rng.range(1, 3));
            let (k0, s0, p0, d0) = g(rng);
            let (k1, s1, p1, d1) = g(rng);
            let l = match kind {
                "conv" => LCfg::Conv { filters, kernel: (k0, k1), stride: (s0, s1), padding: (p0, p1), dilation: (d0, d1), act, dropout: None },
                "deconv" => LCfg::Deconv { filters, kernel: (k0, k1), stride: (s0, s1), padding: (p0, p1), act, dropout: None },
                _ => LCfg::Pool { kernel: (k0, k1), stride: (s0, s1) },
            };
            (l, Sh::Sp(c, h, w))
        };
        let work = match (&l, out_shape(&l, input)) {
            (_, Err(_)) => continue,
            (LCfg::Dense { n, .. }, Ok(_)) => n * input.count(),
            (LCfg::Conv { kernel, .. }, Ok(o)) => o.count() * kernel.0 * kernel.1 * input.spatial().unwrap().0,
            (LCfg::Deconv { kernel, filters, .. }, Ok(_)) => input.count() * kernel.0 * kernel.1 * filters,
            (LCfg::Pool { kernel, .. }, Ok(o)) => o.count() * kernel.0 * kernel.1,
            _ => continue,
        };
        if work > 40_000 {
            continue;
        }
        out.count("large_layers", 1);
        out.cover("large_layer_sizes", format!("{} {}", kind, input.name()));
        layer_grad_check(rng, kind, l, input, idx % 5 == 4, 40, idx < 4, out);
        return;
    }
    out.nontrivial = false;
}

#[allow(clippy::too_many_arguments)]
fn layer_grad_check(rng: &mut Rng, kind: &str, l: LCfg, input: Sh, sparse: bool, limit: usize, sample: bool, out: &mut Out) {
    let cfg = NetCfg::plain(input, vec![l.clone()]);
    out.key = format!("layer {} on {}", l.describe(), input.name());
    if cfg.shapes().is_err() {
        out.nontrivial = false;
        out.count("generated_configurations_invalid_by_the_standard_formulas", 1);
        return;
    }
    out.cover("layer_geometries", l.geometry());
    out.cover("layer_kinds", kind.to_string());
    // find a well-conditioned instance
    let mut found = None;
    if sparse {
        out.count("layer_cases_with_exact_zeros_in_input_parameters_and_upstream_gradient", 1);
    }
    // one case in eight (not the sparse ones): inputs of magnitude 30..3000 - sigmoid and tanh
    // units deep in saturation on both sides (derivatives down to 0, never NaN)
    let extreme = !sparse && limit == usize::MAX && rng.range(0, 7) == 0;
    if extreme {
        out.count("layer_cases_with_inputs_of_large_magnitude", 1);
    }
    for _ in 0..25 {
        let mut params = gen_params(&cfg, rng, -1.5, 1.5).unwrap();
        let mut x = random_input(rng, input);
        if extreme {
            let k = *rng.pick(&[30.0f32, 100.0, 300.0, 2000.0]);
            for v in x.iter_mut() {
                *v *= k;
            }
        }
        if sparse {
            // (zeros in the input of a max-pool layer would only create ties)
            if kind != "pool" {
                sparsify(rng, &mut x, 0.4);
            }
            sparsify_params(rng, &mut params, 0.3);
        }
        let r: RNet<f64> = RNet::plain(&cfg, &params);
        let tr = r.forward(&Val::from_f32(cfg.input, &x));
        if well_conditioned(&cfg.layers, &tr) || (extreme && tr.kink >= 1e-3 && tr.gap >= 1e-3) {
            found = Some((params, x, tr));
            break;
        }
        out.count("regenerated_near_kink_tie_or_saturation", 1);
    }
    let (params, x, tr) = match found {
        Some(f) => f,
        None => {
            out.nontrivial = false;
            out.count("no_well_conditioned_instance_found", 1);
            return;
        }
    };
    let out_sh = tr.output().sh;
    let mut u: Vec<f32> = rng.distinct_f32(out_sh.count(), -1.5, 1.5);
    if sparse {
        sparsify(rng, &mut u, 0.3);
    }
    let net = match build(&cfg, Some(&params)) {
        Ok(n) => n,
        Err(m) => {
            out.viol(&format!("backward:{}:create-panic", kind), format!("creating {} panicked: {}", l.describe(), short(&m, 200)), detail(&cfg, &params, &x));
            return;
        }
    };
    let xin = tensor_of(cfg.shapes().unwrap()[0].0, &x);
    let ut = tensor_of(out_sh, &u);
    let res = guard(|| match &net.layers[0] {
        Layer::Dense(d) => {
            let (pre, _) = d.forward(&xin);
            let (ig, wg, bg) = d.backward(&ut, &xin, &pre);
            (ig, Some(wg), bg)
        }
        Layer::Convolution(c) => {
            let (pre, _) = c.forward(&xin);
            let (ig, wg, bg) = c.backward(&ut, &xin, &pre);
            (ig, Some(wg), bg)
        }
        Layer::Deconvolution(c) => {
            let (pre, _) = c.forward(&xin);
            let (ig, wg, bg) = c.backward(&ut, &xin, &pre);
            (ig, Some(wg), bg)
        }
        Layer::Maxpool(p) => {
            let (_, _, max) = p.forward(&xin);
            (p.backward(&ut, &max), None, None)
        }
        _ => unreachable!(),
    });
    let (ig, wg, bg) = match res {
        Ok(r) => r,
        Err(m) => {
            out.viol(&format!("backward:{}:panic", kind), format!("{} backward panicked on input {}: {}", l.describe(), input.name(), short(&m, 200)), detail(&cfg, &params, &x).set("upstream", J::f32s(&u)));
            return;
        }
    };
    let scalar = |y: &Val<D>| -> D {
        let mut s = D::c(0.0);
        for (yi, ui) in y.d.iter().zip(u.iter()) {
            s = s.add(yi.mul(D::c(*ui as f64)));
        }
        s
    };
    // input gradient
    let in_sh = cfg.shapes().unwrap()[0].0;
    if shape_dims(&ig.shape) != sh_dims(in_sh) || !shape_consistent(&ig) {
        out.viol(
            &format!("backward:{}:input-gradient-shape", kind),
            format!("{} on input {}: the gradient handed to the preceding layer has shape {:?}", l.describe(), in_sh.name(), shape_dims(&ig.shape)),
            detail(&cfg, &params, &x).set("upstream", J::f32s(&u)),
        );
    } else {
        let igf = flat(&ig);
        let rnet: RNet<D> = RNet::plain(&cfg, &params);
        for j in pick_indices(rng, x.len(), limit) {
            let mut xv = Val::<D>::from_f32(cfg.input, &x);
            xv.d[j] = D::var(x[j] as f64);
            let d = scalar(rnet.forward(&xv).output());
            out.count("gradient_entries_compared", 1);
            if d.d != 0.0 {
                out.count("gradient_entries_nonzero", 1);
            }
            margin(out, igf[j], &d, 0.0);
            if !grad_ok(igf[j], &d) {
                out.viol(
                    &format!("backward:{}:input-gradient", kind),
                    format!("{} on {}: d<u,y>/dx[{}] = {:e}, library returns {:e} (magnitude of summed terms {:e})", l.describe(), input.name(), j, d.d, igf[j], d.m),
                    detail(&cfg, &params, &x).set("upstream", J::f32s(&u)),
                );
                break;
            }
        }
    }
    // parameter gradients
    if let Some(wg) = wg {
        let all = coords(&cfg, &params);
        let which: Vec<(usize, usize, usize)> = pick_indices(rng, all.len(), limit).into_iter().map(|k| all[k]).collect();
        let refs = ref_param_grads_at(&cfg, &params, &x, &scalar, &which);
        let wgs = vec![wg];
        let bgs = vec![bg];
        for (co, d) in refs.iter() {
            let got = lib_grad_at(&net, &cfg, &wgs, &bgs, *co);
            out.count("gradient_entries_compared", 1);
            if d.d != 0.0 {
                out.count("gradient_entries_nonzero", 1);
            }
            if let Some(g) = got {
                margin(out, g, d, 0.0);
            }
            match got {
                None => {
                    out.viol(&format!("backward:{}:parameter-gradient-missing", kind), format!("{}: no gradient entry for parameter {}", l.describe(), co.2), detail(&cfg, &params, &x));
                    break;
                }
                Some(g) if !grad_ok(g, d) => {
                    let which = match (&l, &params[0]) {
                        (LCfg::Dense { .. }, P::Dense { w, .. }) => {
                            if co.2 < w.len() * w[0].len() {
                                "weight"
                            } else {
                                "bias"
                            }
                        }
                        _ => "kernel",
                    };
                    out.viol(
                        &format!("backward:{}:{}-gradient", kind, which),
                        format!("{} on {}: d<u,y>/d{}[{}] = {:e}, library returns {:e} (magnitude of summed terms {:e})", l.describe(), input.name(), which, co.2, d.d, g, d.m),
                        detail(&cfg, &params, &x).set("upstream", J::f32s(&u)),
                    );
                    break;
                }
                _ => {}
            }
        }
    }
    if sample {
        out.sample = Some(detail(&cfg, &params, &x).set("upstream", J::f32s(&u)));
    }
}

fn final_act_for(obj: Obj, rng: &mut Rng) -> Act {
    if obj.probabilistic() {
        Act::Sigmoid
    } else {
        *rng.pick(&[Act::Linear, Act::Tanh, Act::Sigmoid, Act::Leaky])
    }
}

fn make_target(rng: &mut Rng, obj: Obj, pred: &[f64]) -> Vec<f32> {
    pred.iter()
        .map(|p| {
            if obj.probabilistic() {
                let mut t = rng.f32_in(0.05, 0.95);
                if (t as f64 - p).abs() < 0.05 {
                    t = if *p > 0.5 { t - 0.2 } else { t + 0.2 };
                }
                t
            } else {
                let d = rng.f32_in(0.1, 1.0) * if rng.bool() { 1.0 } else { -1.0 };
                *p as f32 + d
            }
        })
        .collect()
}

/// A random network of the class in the statement (optionally with a feedback block).
fn c01_net(rng: &mut Rng, obj: Obj, with_block: bool, softmax: bool) -> NetCfg {
    let mut o = NetOpts::standard();
    o.max_depth = 4;
    o.max_extent = 6;
    o.max_count = 60;
    let last_act = if softmax { Act::Softmax } else { final_act_for(obj, rng) };
    o.end_dense = Some(last_act);
    o.min_depth = 2;
    let mut cfg = random_net(rng, &o);
    if with_block {
        // one or (every third time) two shape-preserving blocks before the final dense layer
        let blocks = if rng.chance(0.35) { 2 } else { 1 };
        for _ in 0..blocks {
            insert_block(rng, &mut cfg, 3);
        }
    }
    cfg
}

fn network_case(rng: &mut Rng, idx: u64, out: &mut Out) {
    let obj = OBJS[(idx % 7) as usize];
    let softmax = obj == Obj::CE && (idx / 7) % 2 == 0;
    let with_block = (idx / 14) % 3 == 0;
    let via_learn = (idx / 42) % 3 == 0;
    let mut cfg = c01_net(rng, obj, with_block, softmax);
    // every fifth backward case: the final dense layer is taken away when a convolution or
    // deconvolution precedes it, so that the network ENDS in a spatial layer (image-valued
    // output, image-shaped target) and that layer has predecessors to hand its gradient to
    let mut image_out = false;
    if !softmax && !via_learn && (idx / 9) % 5 == 2 && cfg.layers.len() >= 3 {
        let n = cfg.layers.len();
        if matches!(cfg.layers[n - 2], LCfg::Conv { .. } | LCfg::Deconv { .. }) {
            let act = cfg.layers[n - 1].act().unwrap_or(Act::Linear);
            cfg.layers.pop();
            cfg.layers[n - 2].set_act(act);
            if cfg.shapes().is_ok() {
                image_out = true;
                out.count("network_cases_ending_in_a_spatial_layer", 1);
            }
        }
    }
    // dropout rates configured on random layers: they concern the forward passes of training
    // only, the hooked backward pass of a network that is not in training mode must ignore them
    if !via_learn && (idx / 5) % 4 == 2 {
        for l in cfg.layers.iter_mut() {
            if rng.chance(0.4) {
                l.set_dropout(Some(*rng.pick(&[0.3f32, 0.5, 0.9])));
            }
        }
        out.count("network_cases_with_dropout_rates_configured", 1);
    }
    out.key = format!("{} {} {}", obj.name(), if via_learn { "learn-step" } else { "backward" }, cfg.describe());
    out.cover("architectures", cfg.architecture());
    out.cover("objectives", format!("{}{}", obj.name(), if softmax { "+softmax" } else { "" }));
    for l in cfg.layers.iter() {
        out.cover("layer_geometries", l.geometry());
    }
    let mut found = None;
    let sparse = (idx / 11) % 6 == 5;
    if sparse {
        out.count("network_cases_with_exact_zeros_in_input_and_parameters", 1);
    }
    // flat image regions: the input takes two values in runs, so that neighbouring windows of a
    // convolution see identical data and max-pool windows hold structurally tied elements
    let flat_regions = (idx / 11) % 6 == 4 && !cfg.input.is_flat();
    if flat_regions {
        out.count("network_cases_with_flat_input_regions", 1);
    }
    for _ in 0..25 {
        let mut params = gen_params(&cfg, rng, -1.2, 1.2).unwrap();
        let mut x = random_input(rng, cfg.input);
        if sparse {
            if !matches!(cfg.layers[0], LCfg::Pool { .. }) {
                sparsify(rng, &mut x, 0.4);
            }
            sparsify_params(rng, &mut params, 0.2);
        }
        if flat_regions {
            let palette = [rng.f32_in(-1.5, 1.5), rng.f32_in(-1.5, 1.5)];
            let mut cur = 0usize;
            for v in x.iter_mut() {
                if rng.chance(0.12) {
                    cur = 1 - cur;
                }
                *v = palette[cur];
            }
        }
        let r: RNet<f64> = RNet::plain(&cfg, &params);
        let tr = r.forward(&Val::from_f32(cfg.input, &x));
        let pred = tr.output().values();
        let interior = !obj.probabilistic() || pred.iter().all(|p| *p > 0.02 && *p < 0.98);
        let gap = if flat_regions { structural_gap(rng, &cfg, &params, &x) } else { tr.gap };
        if flat_regions && tr.gap < 1e-3 && gap >= 1e-3 {
            out.count("instances_with_structurally_tied_pool_windows", 1);
        }
        if well_conditioned_g(&cfg.layers, &tr, gap) && interior {
            found = Some((params, x, pred));
            break;
        }
        out.count("regenerated_near_kink_tie_or_saturation", 1);
    }
    let (params, x, pred) = match found {
        Some(f) => f,
        None => {
            out.nontrivial = false;
            out.count("no_well_conditioned_instance_found", 1);
            return;
        }
    };
    let target: Vec<f32> = if softmax {
        let k = rng.range(0, pred.len() - 1);
        (0..pred.len()).map(|i| if i == k { 1.0 } else { 0.0 }).collect()
    } else {
        make_target(rng, obj, &pred)
    };
    let mut net = match build(&cfg, Some(&params)) {
        Ok(n) => n,
        Err(m) => {
            out.viol("backprop:create-panic", format!("building {} panicked: {}", cfg.describe(), short(&m, 200)), detail(&cfg, &params, &x));
            return;
        }
    };
    net.set_objective(lib_obj(obj), None);
    let xin = tensor_of(cfg.input, &x);
    let tt = if image_out { tensor_of(cfg.shapes().unwrap().last().unwrap().1, &target) } else { Tensor::single(target.clone()) };
    // every fifth case checks the gradients of a network object that has already been trained
    // for a few steps (backward -> update -> backward on the same object); the oracle then
    // works with the parameters read back from the network
    let pretrained = (idx / 126) % 5 == 4 && !via_learn;
    let params = if pretrained {
        net.set_optimizer(OptCfg::Sgd { lr: 0.01, decay: None }.build());
        let steps = rng.range(1, 3);
        let r = guard(|| {
            for _ in 0..steps {
                net.learn(&vec![&xin], &vec![&tt], None, 1, 1, None);
            }
        });
        if let Err(m) = r {
            if !m.contains("Loss is NaN") {
                out.viol("backprop:panic:learn", format!("learn() of {} panicked: {}", cfg.describe(), short(&m, 200)), detail(&cfg, &params, &x));
            }
            return;
        }
        let p2 = read_params(&net, &cfg, &params);
        // stay away from kinks / ties / saturation at the trained parameters as well
        let r: RNet<f64> = RNet::plain(&cfg, &p2);
        let tr = r.forward(&Val::from_f32(cfg.input, &x));
        let pr = tr.output().values();
        // (parameters that left [-1000, 1000] in 1..3 steps: the preparatory training diverged;
        // single-precision forward values then overflow where the f64 reference does not)
        let finite = p2.iter().all(|p| p.flat().iter().all(|v| v.is_finite() && v.abs() <= 1e3)) && pr.iter().all(|v| v.is_finite() && v.abs() < 1e30);
        if !finite || !well_conditioned(&cfg.layers, &tr) || (obj.probabilistic() && !pr.iter().all(|p| *p > 0.02 && *p < 0.98)) || pr.iter().zip(target.iter()).any(|(p, t)| (*p - *t as f64).abs() < 0.02) {
            out.nontrivial = false;
            out.count("pretrained_instances_not_well_conditioned", 1);
            return;
        }
        out.count("gradient_checks_on_an_already_trained_network_object", 1);
        p2
    } else {
        params
    };
    let pred: Vec<f64> = if pretrained {
        let r: RNet<f64> = RNet::plain(&cfg, &params);
        r.forward(&Val::from_f32(cfg.input, &x)).output().values()
    } else {
        pred
    };
    // library side: gradients of all parameters
    let lr = 0.5f32;
    let lib: Result<(Vec<((usize, usize, usize), Option<f32>)>, Vec<f32>), String> = if via_learn {
        net.set_optimizer(OptCfg::Sgd { lr, decay: None }.build());
        let before = get_params(&net);
        let g_obj = guard(|| {
            let p = net.predict(&xin);
            flat(&lib_loss_grad(obj, &p, &tt).1)
        });
        let r = guard(|| net.learn(&vec![&xin], &vec![&tt], None, 1, 1, None));
        match (r, g_obj) {
            (Err(m), _) | (_, Err(m)) => Err(m),
            (Ok(_), Ok(g_obj)) => {
                let after = get_params(&net);
                // map coordinates to named tensors, in the order of get_params
                let mut outv = Vec::new();
                let mut flat_before: Vec<f32> = Vec::new();
                let mut flat_after: Vec<f32> = Vec::new();
                for ((_, b), (_, a)) in before.iter().zip(after.iter()) {
                    flat_before.extend(b);
                    flat_after.extend(a);
                }
                // coordinates in the same order as get_params (layer, copy, flat index)
                for (k, co) in coords(&cfg, &params).into_iter().enumerate() {
                    outv.push((co, Some((flat_before[k] - flat_after[k]) / lr)));
                }
                Ok((outv, g_obj))
            }
        }
    } else {
        guard(|| {
            let (pre, post, maxp, fbs) = net.forward(&xin);
            let (_, g) = lib_loss_grad(obj, post.last().unwrap(), &tt);
            let g_obj = flat(&g);
            let (wg, bg) = net.verif_backward(g, &pre, &post, &maxp, fbs);
            let cs = coords(&cfg, &params);
            (cs.into_iter().map(|co| (co, lib_grad_at(&net, &cfg, &wg, &bg, co))).collect(), g_obj)
        })
    };
    let (lib, g_obj) = match lib {
        Ok(l) => l,
        Err(m) => {
            out.viol(
                &format!("backprop:panic:{}", if via_learn { "learn" } else { "backward" }),
                format!("{} of {} panicked: {}", if via_learn { "learn()" } else { "backward" }, cfg.describe(), short(&m, 200)),
                detail(&cfg, &params, &x).set("target", J::f32s(&target)),
            );
            return;
        }
    };
    // reference side
    let tf: Vec<f64> = target.iter().map(|v| *v as f64).collect();
    let true_loss = softmax || matches!(obj, Obj::AE | Obj::MSE | Obj::BCE | Obj::KL);
    let scalar_loss = |y: &Val<D>| obj_loss(obj, &y.d, &tf);
    let scalar_sur = |y: &Val<D>| {
        let mut s = D::c(0.0);
        for (yi, gi) in y.d.iter().zip(g_obj.iter()) {
            s = s.add(yi.mul(D::c(*gi as f64)));
        }
        s
    };
    let refs = if true_loss { ref_param_grads(&cfg, &params, &x, &scalar_loss) } else { ref_param_grads(&cfg, &params, &x, &scalar_sur) };
    // preparatory training may have driven the parameters towards overflow (derivatives beyond
    // the single-precision range): nothing is claimed there
    if pretrained && refs.iter().any(|(_, d)| !(d.d.abs() < 1e30) || !(d.m < 1e30)) {
        out.nontrivial = false;
        out.count("pretrained_instances_not_well_conditioned", 1);
        return;
    }
    // one learn() step couples the copies of a feedback block by the mean: the observable
    // parameter change is the mean of the per-copy gradients
    let refs: Vec<((usize, usize, usize), D)> = if via_learn {
        refs.iter()
            .map(|(co, _)| {
                let same: Vec<&D> = refs.iter().filter(|(c2, _)| c2.0 == co.0 && c2.2 == co.2).map(|(_, d)| d).collect();
                let k = same.len() as f64;
                (*co, D { v: 0.0, d: same.iter().map(|d| d.d).sum::<f64>() / k, m: same.iter().map(|d| d.m).sum::<f64>() / k, e: 0.0, de: same.iter().map(|d| d.de).sum::<f64>() / k + 4.0 * EPS32 * same.iter().map(|d| d.d.abs()).sum::<f64>() / k })
            })
            .collect()
    } else {
        refs
    };
    let which = if true_loss { "objective value" } else { "<objective gradient, output>" };
    // the closed form of the known soft-max defect: library gradient = (n-2) * sum(p^2) * true gradient
    let n_out = pred.len() as f64;
    let factor = (n_out - 2.0) * pred.iter().map(|p| p * p).sum::<f64>();
    let mut mismatches = 0usize;
    let mut explained = 0usize;
    let mut first: Option<String> = None;
    let mut first_kind: Option<&'static str> = None;
    for ((co, got), (_, d)) in lib.iter().zip(refs.iter()) {
        out.count("gradient_entries_compared", 1);
        if d.d != 0.0 {
            out.count("gradient_entries_nonzero", 1);
        }
        let extra = if via_learn { 4e-7 * params[co.0].flat().get(co.2).map(|v| v.abs() as f64).unwrap_or(2.0).max(1.0) / lr as f64 } else { 0.0 };
        let ok = match got {
            Some(g) => g.is_finite() && (*g as f64 - d.d).abs() <= grad_tol(d) + extra,
            None => false,
        };
        if let (true, Some(g)) = (ok, got) {
            margin(out, *g, d, extra);
        }
        if !ok {
            mismatches += 1;
            if let Some(g) = got {
                if softmax && (*g as f64 - factor * d.d).abs() <= 2.0 * grad_tol(d) * factor.abs().max(1.0) + extra {
                    explained += 1;
                }
            }
            if first.is_none() {
                if std::env::var("NV_DEBUG").is_ok() {
                    eprintln!("DEBUG first mismatch: got {:?} d {:?} tol {:e} extra {:e}", got, d, grad_tol(d), extra);
                }
                first_kind = Some(cfg.layers[co.0].kind());
                first = Some(format!("layer {} copy {} parameter {}: derivative of the {} = {:e}, library = {:?} (magnitude {:e})", co.0, co.1, co.2, which, d.d, got, d.m));
            }
        }
    }
    if mismatches > 0 {
        let mode = if via_learn { "learn-step" } else { "backward" };
        let sig = if softmax && explained == mismatches {
            "backprop:softmax-ce:scaled-by-(n-2)*sum(p^2)".to_string()
        } else if softmax {
            "backprop:softmax-ce:other".to_string()
        } else {
            // name the kind of the first layer whose gradient differs, for triage
            format!("backprop:{}:{}", mode, first_kind.unwrap_or("?"))
        };
        out.viol(
            &sig,
            format!("{} [{}; {}]: {} of {} gradient entries differ; first: {}{}", cfg.describe(), obj.name(), mode, mismatches, lib.len(), first.unwrap(), if softmax { format!("; all explained by the factor (n-2)*sum(p^2) = {:.4}: {}", factor, explained == mismatches) } else { String::new() }),
            detail(&cfg, &params, &x).set("target", J::f32s(&target)).set("objective", J::s(obj.name())),
        );
    }
    if idx < 7 {
        out.sample = Some(detail(&cfg, &params, &x).set("target", J::f32s(&target)).set("objective", J::s(obj.name())));
    }
}

impl Monitor for C01 {
    fn id(&self) -> &'static str {
        "C01"
    }
    fn gens(&self, tier: Tier) -> Vec<(&'static str, u64)> {
        vec![("layers", tier.pick(97_200, 1_555_200)), ("large_layers", tier.pick(3_000, 60_000)), ("networks", tier.pick(18_900, 302_400))]
    }
    fn rule(&self) -> &'static str {
        "layers: case i -> (kind in conv/deconv/dense/pool, activation, geometry from the covering walk over the 108 (kernel 1..3, stride 1..3, padding 0..3, dilation 1..3) tuples per axis, channels/filters 1..3, extents up to 7, repetition-free weights/inputs/upstream gradient in [-1.5,1.5], in every fourth block of cases with 30-40% of them set to exactly 0, in one case of eight the inputs scaled by 30..2000 so that sigmoid / tanh units are deep in saturation); the layer's public backward(u, x, pre) is compared entry by entry with the forward-mode dual-number derivative of <u, post(x; theta)> w.r.t. every input element and every weight/bias/kernel element (|g - d| <= 16 * de + 1e-5 * m: de = first-order bound on the deviation of a correct f32 evaluation incl. the effect of forward rounding on the derivative factors, m = the same derivative on absolute values); the input gradient must have the input's shape. large_layers: the same layer-level check on layers that are large in one direction (dense layers with inputs up to 4095 or outputs up to 1025, spatial layers with an extent up to 130, up to 9 channels / filters, kernels 1..5, stride 1..4, padding 0..3, dilation 1..3), derivative compared at up to 40 input and 40 parameter coordinates chosen next to block boundaries (0, 1, 31..33, 63..65, ..., start of the last partial block, n-2, n-1) plus random ones. networks: depth 2..5, any mix of dense/conv/deconv/pool that fits (ending in a dense layer; in every fifth backward case whose last-but-one layer is a convolution / deconvolution the dense layer is removed, so that the network ends in a spatial layer with an image-shaped target), every third with one or two feedback blocks (1..3 loops, no skips; gradients compared per unrolled copy), all seven objectives; gradients taken from the hooked Network::backward, (every third case) from the parameter change of one learn() step with plain SGD, or (every fifth block of cases) from the hooked backward of a network object that has already been trained for 1..3 steps (oracle at the parameters read back from it); oracle = derivative of the objective value for AE/MSE/BCE/KL and for soft-max + cross-entropy, of <objective gradient, output> for MAE/RMSE/CE. One sixth of the spatial network cases use inputs with flat regions (two values in runs): max-pool windows whose tied elements are the same local function of the parameters (equal value and equal directional derivative along a random direction) are kept - the maximum is differentiable there - all other ties are regenerated. Instances within 1e-3 of a ReLU kink / pool tie or with saturated sigmoid (pre > 6) are regenerated. Distinct = distinct configuration descriptors."
    }
    fn assumptions(&self) -> Vec<&'static str> {
        vec![
            "reference model refmodel.rs (cross-checked against forward by C02)",
            "MAE/RMSE/CE-without-softmax gradients are documented not to be loss derivatives (C06 carve-out): only back-propagation of the documented objective gradient is asserted for them",
            "feedback blocks: the library keeps one gradient per unrolled copy; each is compared with the derivative w.r.t. that copy's parameters",
        ]
    }
    fn run(&self, gen: &str, seed: u64, idx: u64, _tier: Tier) -> Out {
        let mut rng = Rng::stream(seed, gen, idx);
        let mut out = Out::new(String::new());
        match gen {
            "layers" => layer_case(&mut rng, idx, &mut out),
            "large_layers" => large_layer_case(&mut rng, idx, &mut out),
            "networks" => network_case(&mut rng, idx, &mut out),
            _ => panic!("unknown generator {}", gen),
        }
        out
    }
    fn finish(&self, _tier: Tier, _seed: u64, agg: &mut Agg) {
        agg.require(agg.count("gradient_entries_compared") >= 200_000, format!("only {} gradient entries compared", agg.count("gradient_entries_compared")));
        agg.require(agg.set_size("layer_geometries") >= 1000, format!("only {} layer geometries", agg.set_size("layer_geometries")));
        agg.require(agg.set_size("objectives") >= 8, "objectives not all exercised".into());
        let nz = agg.count("gradient_entries_nonzero") as f64 / agg.count("gradient_entries_compared").max(1) as f64;
        agg.extra.push(("fraction_of_nonzero_reference_gradients".into(), J::Num((nz * 1000.0).round() / 1000.0)));
    }
}
