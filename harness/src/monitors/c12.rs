//! C12 — validate and predict_batch are faithful aggregations of predict.

use crate::cfg::*;
use crate::core::*;
use crate::gen::*;
use crate::json::J;
use crate::lib_build::*;
use crate::refmodel::EPS32;
use crate::rng::Rng;
use crate::train::*;
use neurons::objective;
use neurons::tensor::Tensor;

pub struct C12;

const SIZES: [usize; 12] = [1, 2, 3, 63, 64, 65, 127, 128, 129, 200, 257, 40];

/// Soft-max output with several exactly equal maxima (zero output weights => the uniform
/// distribution for every input). Whatever the tie-breaking convention of arg-max is, it picks
/// ONE class per prediction, and since all predictions are identical it picks the same class c
/// for every sample: the accuracy must equal the frequency of some single class among the
/// targets. (Counting every tied class as a hit would give 1.0.)
fn ties_case(seed: u64, idx: u64) -> Out {
    let mut rng = Rng::stream(seed, "ties", idx);
    let classes = rng.range(2, 5);
    let n = *rng.pick(&[3usize, 6, 10, 63, 64, 65, 130]);
    let hidden = rng.range(1, 4);
    let cfg = NetCfg::plain(
        Sh::Flat(rng.range(1, 4)),
        vec![LCfg::Dense { n: hidden, act: Act::Tanh, bias: true, dropout: None }, LCfg::Dense { n: classes, act: Act::Softmax, bias: true, dropout: None }],
    );
    let mut params = gen_params(&cfg, &mut rng, -1.0, 1.0).unwrap();
    let zeros = vec![0.0f32; params[1].count()];
    params[1].set_flat(&zeros);
    let mut out = Out::new(format!("ties classes{} n{} {}", classes, n, cfg.describe()));
    let mut net = match build(&cfg, Some(&params)) {
        Ok(n) => n,
        Err(m) => {
            out.inconclusive = Some(format!("cannot build tie network: {}", m));
            return out;
        }
    };
    net.set_objective(lib_obj(Obj::CE), None);
    let xs: Vec<Tensor> = (0..n).map(|_| tensor_of(cfg.input, &(0..cfg.input.count()).map(|_| rng.f32_in(-1.0, 1.0)).collect::<Vec<f32>>())).collect();
    // targets spread over at least two classes
    let labels: Vec<usize> = (0..n).map(|i| if i < 2 { i % classes } else { rng.range(0, classes - 1) }).collect();
    let ts: Vec<Tensor> = labels.iter().map(|k| Tensor::single((0..classes).map(|i| if i == *k { 1.0 } else { 0.0 }).collect())).collect();
    let xr: Vec<&Tensor> = xs.iter().collect();
    let tr: Vec<&Tensor> = ts.iter().collect();
    // the construction must really produce tied maxima
    let p0 = flat(&net.predict(&xs[0]));
    if !p0.iter().all(|v| v.to_bits() == p0[0].to_bits()) {
        out.nontrivial = false;
        return out;
    }
    let (r, _) = in_cached_pool(2, || guard(|| net.validate(&xr, &tr, 0.1)));
    match r {
        Err(m) => out.viol("aggregate:ties:validate-panic", format!("validate panicked on tied soft-max outputs: {}", short(&m, 160)), J::Null),
        Ok((_, acc)) => {
            out.count("tied_argmax_validations", 1);
            let freqs: Vec<f64> = (0..classes).map(|c| labels.iter().filter(|l| **l == c).count() as f64 / n as f64).collect();
            if !freqs.iter().any(|f| (f - acc as f64).abs() <= (n as f64 + 4.0) * 2.0 * EPS32 + 1e-9) {
                out.viol(
                    "aggregate:validate-accuracy:argmax-ties",
                    format!("uniform soft-max output over {} classes, {} samples with class frequencies {:?}: accuracy {:e} is not the frequency of any single class (arg-max picks one class)", classes, n, freqs, acc),
                    J::obj().set("labels", J::usizes(&labels)).set("accuracy", J::f(acc as f64)),
                );
            }
        }
    }
    out
}

impl Monitor for C12 {
    fn id(&self) -> &'static str {
        "C12"
    }
    fn gens(&self, tier: Tier) -> Vec<(&'static str, u64)> {
        vec![("aggregate", tier.pick(8400, 168_000)), ("ties", tier.pick(600, 12_000))]
    }
    fn rule(&self) -> &'static str {
        "case i -> objective (i mod 7), data-set size from {1,2,3,40,63,64,65,127,128,129,200,257} (i/7 mod 12; the parallel chunk is 64), soft-max output or not, output width 1 or >1, tolerance from {f32::MIN_POSITIVE, 1e-9, log-uniform [1e-12,1e-6], log-uniform [1e-6,0.5]}, pool of 1..16 threads; random network ending in a dense layer (dense/conv/deconv/pool before it). Targets are generated from the network's own predictions so that every component is clearly inside (an exact hit or |t-p| <= tol/2) or clearly outside (>= 2 tol + 0.01) the tolerance and arg-max ties do not occur. Oracle: harness-side aggregation over the library's own predict() and objective loss(): mean loss (f64, bound n*eps), accuracy by the stated rule; predict_batch(xs)[i] must be bit-equal to predict(xs[i]) in input order (also for 0 inputs), predict(x) bit-equal to the last activation of forward(x). ties: soft-max outputs with exactly equal maxima (uniform distribution): the accuracy must equal the frequency of some single class among the targets, whatever the tie-breaking convention. Distinct = distinct (network, objective, size, tolerance) descriptors."
    }
    fn assumptions(&self) -> Vec<&'static str> {
        vec!["boundary semantics (|t-p| == tol, arg-max ties, NaN losses) are unspecified and not generated", "per-sample predict() and loss() are trusted here (they are the subject of C02/C06)"]
    }
    fn run(&self, gen: &str, seed: u64, idx: u64, _tier: Tier) -> Out {
        if gen == "ties" {
            return ties_case(seed, idx);
        }
        let mut rng = Rng::stream(seed, gen, idx);
        let obj = OBJS[(idx % 7) as usize];
        let n = SIZES[((idx / 7) % 12) as usize];
        let softmax = (idx / 84) % 3 == 0;
        let wide = (idx / 84) % 2 == 0 || softmax;
        let tol = match rng.range(0, 7) {
            0 => f32::MIN_POSITIVE,
            1 => 1e-9,
            2 => rng.log_in(1e-12, 1e-6) as f32,
            _ => rng.log_in(1e-6, 0.5) as f32,
        };
        let threads = *rng.pick(&[1usize, 2, 3, 4, 8, 16]);
        let mut o = NetOpts::standard();
        o.max_depth = 3;
        o.min_depth = 1;
        o.max_count = 40;
        o.max_extent = 5;
        o.end_dense = Some(if softmax { Act::Softmax } else if obj.probabilistic() { Act::Sigmoid } else { *rng.pick(&[Act::Linear, Act::Tanh, Act::Sigmoid]) });
        let mut cfg = random_net(&mut rng, &o);
        // fix the output width
        let last = cfg.layers.len() - 1;
        if let LCfg::Dense { n: width, .. } = &mut cfg.layers[last] {
            *width = if wide { rng.range(2, 5) } else { 1 };
        }
        if idx % 5 == 4 && cfg.layers.len() >= 2 {
            insert_block(&mut rng, &mut cfg, 3);
        }
        let last = cfg.layers.len() - 1;
        let mut params = gen_params(&cfg, &mut rng, -1.0, 1.0).unwrap();
        // every sixth non-probabilistic case: outputs of magnitude ~50 (linear output layer)
        if idx % 6 == 5 && !obj.probabilistic() && !softmax {
            if let LCfg::Dense { act, .. } = &mut cfg.layers[last] {
                *act = Act::Linear;
            }
            let scaled: Vec<f32> = params[last].flat().iter().map(|v| v * 50.0).collect();
            params[last].set_flat(&scaled);
        }
        let mut out = Out::new(format!("{} {} n{} tol{:e} softmax{} threads{}", obj.name(), cfg.describe(), n, tol, softmax, threads));
        out.cover("sizes", n.to_string());
        out.cover("objective_x_accuracy_rule", format!("{}/{}", obj.name(), if softmax { "argmax" } else if wide { "fraction" } else { "single" }));
        let mut net = match build(&cfg, Some(&params)) {
            Ok(n) => n,
            Err(m) => {
                out.viol("aggregate:create-panic", format!("building {} panicked: {}", cfg.describe(), short(&m, 160)), J::Null);
                return out;
            }
        };
        net.set_objective(lib_obj(obj), None);
        let width = match cfg.layers[last] {
            LCfg::Dense { n, .. } => n,
            _ => unreachable!(),
        };
        // inputs, predictions, targets
        let mut xs: Vec<Vec<f32>> = Vec::new();
        while xs.len() < n {
            xs.push((0..cfg.input.count()).map(|_| rng.f32_in(-1.0, 1.0)).collect());
        }
        let x_t: Vec<Tensor> = xs.iter().map(|x| tensor_of(cfg.input, x)).collect();
        let preds: Vec<Vec<f32>> = match guard(|| x_t.iter().map(|x| flat(&net.predict(x))).collect::<Vec<_>>()) {
            Ok(p) => p,
            Err(m) => {
                out.viol("aggregate:predict-panic", format!("predict of {} panicked: {}", cfg.describe(), short(&m, 160)), J::Null);
                return out;
            }
        };
        let mut expect_acc: Vec<f64> = Vec::new();
        let ts: Vec<Vec<f32>> = preds
            .iter()
            .map(|p| {
                if softmax {
                    // one-hot on the arg-max (hit) or elsewhere (miss); skip ties by construction
                    let am = p.iter().enumerate().fold(0, |b, (i, v)| if *v > p[b] { i } else { b });
                    let unique = p.iter().filter(|v| **v == p[am]).count() == 1;
                    let hit = rng.bool() && unique;
                    let k = if hit { am } else { (am + 1 + rng.range(0, width - 2)) % width };
                    let k = if unique { k } else { am };
                    expect_acc.push(if k == am && unique { 1.0 } else if !unique { f64::NAN } else { 0.0 });
                    (0..width).map(|i| if i == k { 1.0 } else { 0.0 }).collect()
                } else {
                    let mut hits = 0usize;
                    let t: Vec<f32> = p
                        .iter()
                        .map(|v| {
                            let inside = rng.bool();
                            let mut t = if inside && rng.bool() { *v } else if inside { v + tol * 0.5 * if rng.bool() { 1.0 } else { -1.0 } } else { v + (2.0 * tol + 0.01) * if rng.bool() { 1.0 } else { -1.0 } };
                            if obj.probabilistic() {
                                // keep targets inside [0,1] without changing the side of the tolerance
                                if t < 0.0 || t > 1.0 {
                                    t = 2.0 * v - t;
                                }
                                t = t.clamp(0.0, 1.0);
                            }
                            if (t - v).abs() < tol {
                                hits += 1;
                            }
                            t
                        })
                        .collect();
                    // reject boundary situations created by rounding or clamping
                    let clear = t.iter().zip(p.iter()).all(|(t, v)| {
                        let d = (t - v).abs();
                        d < 0.75 * tol || d > 1.5 * tol
                    });
                    expect_acc.push(if clear { hits as f64 / width as f64 } else { f64::NAN });
                    t
                }
            })
            .collect();
        if expect_acc.iter().any(|a| a.is_nan()) {
            out.nontrivial = false;
            out.count("cases_skipped_because_a_sample_sits_on_a_boundary", 1);
            return out;
        }
        let t_t: Vec<Tensor> = ts.iter().map(|t| Tensor::single(t.clone())).collect();
        // per-sample losses through the library's own loss()
        let objf = objective::Function::create(lib_obj(obj), None);
        let losses: Vec<f32> = preds.iter().zip(t_t.iter()).map(|(p, t)| objf.loss(&Tensor::single(p.clone()), t).0).collect();
        if losses.iter().any(|l| !l.is_finite()) {
            out.nontrivial = false;
            out.count("cases_skipped_because_a_sample_loss_is_not_finite", 1);
            return out;
        }
        let mean_loss: f64 = losses.iter().map(|l| *l as f64).sum::<f64>() / n as f64;
        let mean_abs: f64 = losses.iter().map(|l| (*l as f64).abs()).sum::<f64>() / n as f64;
        let mean_acc: f64 = expect_acc.iter().sum::<f64>() / n as f64;

        let xr: Vec<&Tensor> = x_t.iter().collect();
        let tr: Vec<&Tensor> = t_t.iter().collect();
        let (res, _events) = in_cached_pool(threads, || {
            let v = guard(|| net.validate(&xr, &tr, tol));
            let pb = guard(|| net.predict_batch(&xr));
            let empty = guard(|| net.predict_batch(&Vec::new()));
            let fw = guard(|| xr.iter().take(5).map(|x| (flat(&net.predict(x)), flat(net.forward(x).1.last().unwrap()))).collect::<Vec<_>>());
            (v, pb, empty, fw)
        });
        let (v, pb, empty, fw) = res;
        let detail = || J::obj().set("network", J::s(&cfg.describe())).set("parameters", params_json(&params)).set("objective", J::s(obj.name())).set("samples", J::Int(n as i64)).set("tolerance", J::f(tol as f64)).set("threads", J::Int(threads as i64));
        match v {
            Err(m) => out.viol("aggregate:validate-panic", format!("validate on {} samples panicked: {}", n, short(&m, 160)), detail()),
            Ok((loss, acc)) => {
                out.count("validate_calls", 1);
                let ltol = (n as f64 + 4.0) * 2.0 * EPS32 * mean_abs + 1e-30;
                if !loss.is_finite() || (loss as f64 - mean_loss).abs() > ltol {
                    out.viol("aggregate:validate-loss", format!("validate over {} samples ({}): loss {:e}, mean of the per-sample losses {:e} (bound {:e})", n, obj.name(), loss, mean_loss, ltol), detail());
                }
                let atol = (n as f64 + 4.0) * 2.0 * EPS32 + 1e-9;
                if !acc.is_finite() || (acc as f64 - mean_acc).abs() > atol {
                    out.viol(
                        &format!("aggregate:validate-accuracy:{}", if softmax { "argmax" } else { "tolerance" }),
                        format!("validate over {} samples: accuracy {:e}, rule ({}) gives {:e}", n, acc, if softmax { "arg-max agreement" } else { "fraction of components within tolerance" }, mean_acc),
                        detail(),
                    );
                }
            }
        }
        match pb {
            Err(m) => out.viol("aggregate:predict_batch-panic", format!("predict_batch on {} inputs panicked: {}", n, short(&m, 160)), detail()),
            Ok(batch) => {
                out.count("predict_batch_calls", 1);
                if batch.len() != n {
                    out.viol("aggregate:predict_batch-length", format!("predict_batch returned {} outputs for {} inputs", batch.len(), n), detail());
                } else if let Some(i) = (0..n).find(|i| !bits_eq(&flat(&batch[*i]), &preds[*i])) {
                    let elsewhere = (0..n).find(|j| bits_eq(&flat(&batch[i]), &preds[*j]));
                    out.viol("aggregate:predict_batch-order-or-value", format!("predict_batch({} inputs)[{}] differs from predict(inputs[{}]){}", n, i, i, elsewhere.map(|j| format!("; it equals predict(inputs[{}])", j)).unwrap_or_default()), detail());
                }
            }
        }
        match empty {
            Ok(v) if v.is_empty() => {}
            Ok(v) => out.viol("aggregate:predict_batch-empty", format!("predict_batch of no inputs returned {} outputs", v.len()), J::Null),
            Err(m) => out.viol("aggregate:predict_batch-empty-panic", format!("predict_batch of no inputs panicked: {}", short(&m, 160)), J::Null),
        }
        match fw {
            Ok(pairs) => {
                if pairs.iter().any(|(a, b)| !bits_eq(a, b)) {
                    out.viol("aggregate:predict-vs-forward", "predict(x) differs from the last activation of forward(x)".into(), detail());
                }
            }
            Err(m) => out.viol("aggregate:forward-panic", format!("forward panicked: {}", short(&m, 160)), detail()),
        }
        if idx < 3 {
            out.sample = Some(detail().set("expected_mean_loss", J::f(mean_loss)).set("expected_accuracy", J::f(mean_acc)));
        }
        out
    }
    fn finish(&self, _tier: Tier, _seed: u64, agg: &mut Agg) {
        agg.require(agg.set_size("sizes") == 12, "data-set sizes not all exercised".into());
        agg.require(agg.count("validate_calls") >= 400, format!("only {} validate calls judged", agg.count("validate_calls")));
        agg.require(agg.set_size("objective_x_accuracy_rule") >= 18, "objective x accuracy-rule combinations missing".into());
    }
}
