//! C12 — validate and predict_batch are faithful aggregations of predict.

use crate::cfg::*;
use crate::core::*;
use crate::gen::*;
use crate::json::J;
use crate::lib_build::*;
use crate::refmodel::EPS32;
use crate::rng::Rng;
use crate::train::*;
use neurons::objective;
use neurons::tensor::Tensor;

pub struct C12;

const SIZES: [usize; 12] = [1, 2, 3, 63, 64, 65, 127, 128, 129, 200, 257, 40];

/// Soft-max output with several exactly equal maxima (zero output weights => the uniform
/// distribution for every input). Whatever the tie-breaking convention of arg-max is, it picks
/// ONE class per prediction, and since all predictions are identical it picks the same class c
/// for every sample: the accuracy must equal the frequency of some single class among the
/// targets. (Counting every tied class as a hit would give 1.0.)
fn ties_case(seed: u64, idx: u64) -> Out {
    let mut rng = Rng::stream(seed, "ties", idx);
    let classes = rng.range(2, 5);
    let n = *rng.pick(&[3usize, 6, 10, 63, 64, 65, 130]);
    let hidden = rng.range(1, 4);
    let cfg = NetCfg::plain(
        Sh::Flat(rng.range(1, 4)),
        vec![LCfg::Dense { n: hidden, act: Act::Tanh, bias: true, dropout: None }, LCfg::Dense { n: classes, act: Act::Softmax, bias: true, dropout: None }],
    );
    let mut params = gen_params(&cfg, &mut rng, -1.0, 1.0).unwrap();
    let zeros = vec![0.0f32; params[1].count()];
    params[1].set_flat(&zeros);
    let mut out = Out::new(format!("ties classes{} n{} {}", classes, n, cfg.describe()));
    let mut net = match build(&cfg, Some(&params)) {
        Ok(n) => n,
        Err(m) => {
            out.inconclusive = Some(format!("cannot build tie network: {}", m));
            return out;
        }
    };
    net.set_objective(lib_obj(Obj::CE), None);
    let xs: Vec<Tensor> = (0..n).map(|_| tensor_of(cfg.input, &(0..cfg.input.count()).map(|_| rng.f32_in(-1.0, 1.0)).collect::<Vec<f32>>())).collect();
    // targets spread over at least two classes
    let labels: Vec<usize> = (0..n).map(|i| if i < 2 { i % classes } else { rng.range(0, classes - 1) }).collect();
    let ts: Vec<Tensor> = labels.iter().map(|k| Tensor::single((0..classes).map(|i| if i == *k { 1.0 } else { 0.0 }).collect())).collect();
    let xr: Vec<&Tensor> = xs.iter().collect();
    let tr: Vec<&Tensor> = ts.iter().collect();
    // the construction must really produce tied maxima
    let p0 = flat(&net.predict(&xs[0]));
    if !p0.iter().all(|v| v.to_bits() == p0[0].to_bits()) {
        out.nontrivial = false;
        return out;
    }
    let (r, _) = in_cached_pool(2, || guard(|| net.validate(&xr, &tr, 0.1)));
    match r {
        Err(m) => out.viol("aggregate:ties:validate-panic", format!("validate panicked on tied soft-max outputs: {}", short(&m, 160)), J::Null),
        Ok((_, acc)) => {
            out.count("tied_argmax_validations", 1);
            let freqs: Vec<f64> = (0..classes).map(|c| labels.iter().filter(|l| **l == c).count() as f64 / n as f64).collect();
            if !freqs.iter().any(|f| (f - acc as f64).abs() <= (n as f64 + 4.0) * 2.0 * EPS32 + 1e-9) {
                out.viol(
                    "aggregate:validate-accuracy:argmax-ties",
                    format!("uniform soft-max output over {} classes, {} samples with class frequencies {:?}: accuracy {:e} is not the frequency of any single class (arg-max picks one class)", classes, n, freqs, acc),
                    J::obj().set("labels", J::usizes(&labels)).set("accuracy", J::f(acc as f64)),
                );
            }
        }
    }
    out
}

/// predict == final activation of forward, predict_batch == predict, on networks with skip
/// connections and one to three loop connections in ANY arrangement the library accepts
/// (disjoint, nested, overlapping ranges; with and without input skips). No reference model:
/// the three entry points are compared with each other, bit for bit.
fn structures_case(seed: u64, idx: u64) -> Out {
    let mut rng = Rng::stream(seed, "structures", idx);
    let acts = [Act::Tanh, Act::Sigmoid, Act::Linear, Act::Leaky, Act::Relu];
    let kind = (idx % 3) as usize;
    let depth = rng.range(3, 7);
    let (with_pool, end_dense) = (kind == 1 && rng.bool(), rng.bool());
    let mut cfg = chain(&mut rng, kind, depth, &acts, with_pool, end_dense);
    let mut out = Out::new(String::new());
    let shapes = match cfg.shapes() {
        Ok(s) => s,
        Err(_) => {
            out.nontrivial = false;
            return out;
        }
    };
    let nl = cfg.layers.len();
    let mut loops: Vec<(usize, usize, usize, bool)> = Vec::new();
    for _ in 0..rng.range(1, 3) {
        let a = rng.range(0, nl - 1);
        let b = rng.range(a, nl - 1);
        if shapes[a].0 == shapes[b].1 && loops.iter().all(|l| l.0 != b) {
            loops.push((b, a, rng.range(1, 3), rng.bool()));
        }
    }
    let mut skips: Vec<(usize, usize)> = Vec::new();
    for _ in 0..rng.range(0, 2) {
        let a = rng.range(0, nl - 1);
        let b = rng.range(a, nl - 1);
        if shapes[a].0.count() == shapes[b].0.count() && skips.iter().all(|s| s.1 != b) {
            skips.push((a, b));
        }
    }
    cfg.loops = loops.clone();
    cfg.skips = skips.clone();
    cfg.loopacc = ACCS[((idx / 3) % 5) as usize];
    cfg.skipacc = ACCS[((idx / 15) % 5) as usize];
    out.key = cfg.describe();
    let arrangement = {
        let mut overlapping = false;
        let mut nested = false;
        for (i, l1) in loops.iter().enumerate() {
            for l2 in loops.iter().skip(i + 1) {
                let (a1, b1, a2, b2) = (l1.1, l1.0, l2.1, l2.0);
                let disjoint = b1 < a2 || b2 < a1;
                let inside = (a1 <= a2 && b2 <= b1) || (a2 <= a1 && b1 <= b2);
                if !disjoint && inside {
                    nested = true;
                } else if !disjoint {
                    overlapping = true;
                }
            }
        }
        format!("{} loops{}{}{}", loops.len(), if nested { " nested" } else { "" }, if overlapping { " overlapping" } else { "" }, if loops.iter().any(|l| l.3) { " inskips" } else { "" })
    };
    let params = gen_params(&cfg, &mut rng, -1.0, 1.0).unwrap();
    let net = match build(&cfg, Some(&params)) {
        Ok(n) => n,
        Err(_) => {
            out.nontrivial = false;
            out.count("structures_rejected_by_the_library", 1);
            return out;
        }
    };
    let xs: Vec<Tensor> = (0..rng.range(1, 5)).map(|_| tensor_of(cfg.input, &random_input(&mut rng, cfg.input))).collect();
    let xr: Vec<&Tensor> = xs.iter().collect();
    let detail = || J::obj().set("network", J::s(&cfg.describe())).set("parameters", params_json(&params)).set("input", J::f32s(&flat(&xs[0])));
    let p = guard(|| net.predict(&xs[0]));
    let f = guard(|| net.forward(&xs[0]).1.last().unwrap().clone());
    match (p, f) {
        (Err(_), Err(_)) => {
            out.nontrivial = false;
            out.count("structures_on_which_forward_and_predict_both_panic", 1);
            return out;
        }
        (Ok(_), Err(m)) | (Err(m), Ok(_)) => {
            out.viol("aggregate:structures:one-of-predict-forward-panics", format!("{}: only one of predict / forward panics: {}", cfg.describe(), short(&m, 160)), detail());
            return out;
        }
        (Ok(p), Ok(f)) => {
            out.count("structured_networks_compared", 1);
            out.cover("loop_arrangements", arrangement);
            if shape_dims(&p.shape) != shape_dims(&f.shape) || !bits_eq(&flat(&p), &flat(&f)) {
                let i = flat(&p).iter().zip(flat(&f).iter()).position(|(a, b)| a.to_bits() != b.to_bits()).unwrap_or(0);
                out.viol(
                    "aggregate:predict-vs-forward:structures",
                    format!("{}: predict[{}] = {:e} but the final activation of forward is {:e}", cfg.describe(), i, flat(&p).get(i).cloned().unwrap_or(f32::NAN), flat(&f).get(i).cloned().unwrap_or(f32::NAN)),
                    detail(),
                );
            }
        }
    }
    let (pb, _) = in_cached_pool(*rng.pick(&[1usize, 2, 4]), || guard(|| net.predict_batch(&xr)));
    match pb {
        Err(m) => out.viol("aggregate:structures:predict_batch-panic", format!("{}: predict_batch panicked: {}", cfg.describe(), short(&m, 160)), detail()),
        Ok(pb) => {
            if pb.len() != xs.len() || pb.iter().zip(xs.iter()).any(|(b, x)| !bits_eq(&flat(b), &flat(&net.predict(x)))) {
                out.viol("aggregate:predict_batch-vs-predict:structures", format!("{}: predict_batch differs from predict of each input in order", cfg.describe()), detail());
            }
        }
    }
    if idx < 3 {
        out.sample = Some(detail());
    }
    out
}

/// Non-soft-max outputs with NaN in play: a NaN target component, a NaN prediction (NaN input)
/// or a NaN tolerance. A component whose distance to the target is NaN, or that is compared
/// with a NaN tolerance, is not "within the tolerance of the target": it counts as a miss. Only
/// the accuracy is judged (the loss is NaN by arithmetic).
fn nan_scoring_case(seed: u64, idx: u64) -> Out {
    let mut rng = Rng::stream(seed, "nan_scoring", idx);
    let width = rng.range(1, 5);
    let n = *rng.pick(&[1usize, 2, 5, 8, 65, 70]);
    let inputs = rng.range(1, 4);
    let cfg = NetCfg::plain(Sh::Flat(inputs), vec![LCfg::Dense { n: rng.range(1, 4), act: Act::Tanh, bias: true, dropout: None }, LCfg::Dense { n: width, act: *rng.pick(&[Act::Linear, Act::Tanh, Act::Sigmoid]), bias: true, dropout: None }]);
    let params = gen_params(&cfg, &mut rng, -1.0, 1.0).unwrap();
    // 0: NaN targets, 1: NaN inputs (NaN predictions), 2: NaN tolerance, 3: negative tolerance,
    // 4: a tolerance above one (up to f32::MAX), 5: an infinite tolerance
    let mode = idx % 6;
    let mut out = Out::new(format!("nan scoring mode {} n{} {}", mode, n, cfg.describe()));
    let mut net = match build(&cfg, Some(&params)) {
        Ok(n) => n,
        Err(m) => {
            out.inconclusive = Some(format!("cannot build: {}", m));
            return out;
        }
    };
    net.set_objective(lib_obj(Obj::MSE), None);
    let tol = if mode == 2 {
        f32::NAN
    } else if mode == 3 {
        *rng.pick(&[-0.03f32, -0.5, -1e-6, f32::NEG_INFINITY])
    } else if mode == 4 {
        *rng.pick(&[1.5f32, 2.0, 5.0, 40.0, 1e3, 1e30, f32::MAX])
    } else if mode == 5 {
        f32::INFINITY
    } else {
        *rng.pick(&[0.05f32, 0.1, 0.5])
    };
    let xs: Vec<Vec<f32>> = (0..n).map(|i| (0..inputs).map(|_| if mode == 1 && i % 3 == 1 { f32::NAN } else { rng.f32_in(-1.0, 1.0) }).collect()).collect();
    let x_t: Vec<Tensor> = xs.iter().map(|x| tensor_of(cfg.input, x)).collect();
    let preds: Vec<Vec<f32>> = match guard(|| x_t.iter().map(|x| flat(&net.predict(x))).collect::<Vec<_>>()) {
        Ok(p) => p,
        Err(_) => {
            out.nontrivial = false;
            return out;
        }
    };
    // targets: clear hits (the prediction itself) and clear misses, some components NaN
    let mut expect = 0.0f64;
    let ts: Vec<Vec<f32>> = preds
        .iter()
        .map(|p| {
            let t: Vec<f32> = p
                .iter()
                .map(|v| {
                    if mode >= 4 {
                        // distances 0, 1.2, 3 and tol/2 are within a tolerance above one, 2*tol + 1
                        // (possibly infinite) is not; with an infinite tolerance every finite
                        // distance is
                        match rng.range(0, 4) {
                            0 => *v,
                            1 => *v + 1.2 * if tol > 1.3 { 1.0 } else { 0.0 },
                            2 => *v - 3.0 * if tol > 4.0 { 1.0 } else { 0.0 },
                            3 if tol.is_finite() => *v + 0.5 * tol,
                            4 if tol.is_finite() => *v - (2.0 * tol + 1.0),
                            _ => *v + 1e30,
                        }
                    } else if mode == 0 && rng.chance(0.3) {
                        f32::NAN
                    } else if rng.bool() {
                        *v
                    } else {
                        *v + 1.0 + 4.0 * tol.abs().min(1.0)
                    }
                })
                .collect();
            let hits = t.iter().zip(p.iter()).filter(|(t, v)| (**t - **v).abs() < tol).count();
            expect += hits as f64 / width as f64;
            t
        })
        .collect();
    expect /= n as f64;
    let t_t: Vec<Tensor> = ts.iter().map(|t| Tensor::single(t.clone())).collect();
    let (xr, tr): (Vec<&Tensor>, Vec<&Tensor>) = (x_t.iter().collect(), t_t.iter().collect());
    match guard(|| net.validate(&xr, &tr, tol)) {
        Err(m) => {
            // (whether NaN data is refused is not part of the property)
            out.cover("nan_scoring_refused", short(&m, 60));
        }
        Ok((_, acc)) => {
            out.count("validations_with_nan_in_play", 1);
            if !((acc as f64 - expect).abs() <= (n as f64 + 4.0) * 2.0 * EPS32 + 1e-9) {
                out.viol(
                    "aggregate:validate-accuracy:nan",
                    format!("validate over {} samples with {}: accuracy {:e}, the rule (a component is within the tolerance iff |target - prediction| < tolerance; a comparison involving NaN is not) gives {:e} [tolerance {:e}]", n, ["NaN target components", "NaN inputs", "a NaN tolerance", "a negative tolerance", "a tolerance above one", "an infinite tolerance"][mode as usize], acc, expect, tol),
                    J::obj().set("network", J::s(&cfg.describe())).set("mode", J::Int(mode as i64)),
                );
            }
        }
    }
    out
}

/// A soft-max output layer with ONE unit predicts the constant [1.0]; target and prediction
/// both have their (only) maximum at index 0, so arg-max agreement holds for every sample and
/// the accuracy is 1 whatever the target values are.
fn single_class_case(seed: u64, idx: u64) -> Out {
    let mut rng = Rng::stream(seed, "single_class", idx);
    let n = *rng.pick(&[1usize, 2, 7, 64, 65, 130]);
    let inputs = rng.range(1, 4);
    let cfg = NetCfg::plain(Sh::Flat(inputs), vec![LCfg::Dense { n: rng.range(1, 4), act: Act::Tanh, bias: true, dropout: None }, LCfg::Dense { n: 1, act: Act::Softmax, bias: rng.bool(), dropout: None }]);
    let params = gen_params(&cfg, &mut rng, -1.0, 1.0).unwrap();
    let mut out = Out::new(format!("single class n{} {}", n, cfg.describe()));
    let mut net = match build(&cfg, Some(&params)) {
        Ok(n) => n,
        Err(m) => {
            out.inconclusive = Some(format!("cannot build: {}", m));
            return out;
        }
    };
    net.set_objective(lib_obj(*rng.pick(&[Obj::MSE, Obj::AE, Obj::CE])), None);
    let x_t: Vec<Tensor> = (0..n).map(|_| tensor_of(cfg.input, &(0..inputs).map(|_| rng.f32_in(-1.0, 1.0)).collect::<Vec<f32>>())).collect();
    let t_t: Vec<Tensor> = (0..n).map(|_| Tensor::single(vec![*rng.pick(&[0.0f32, 1.0, 0.3, -2.0, 5.0])])).collect();
    let (xr, tr): (Vec<&Tensor>, Vec<&Tensor>) = (x_t.iter().collect(), t_t.iter().collect());
    let tol = *rng.pick(&[1e-6f32, 0.1, 0.5]);
    match guard(|| net.validate(&xr, &tr, tol)) {
        Err(m) => out.viol("aggregate:validate-panic:single-class", format!("validate panicked: {}", short(&m, 160)), J::Null),
        Ok((_, acc)) => {
            out.count("single_unit_softmax_validations", 1);
            if (acc as f64 - 1.0).abs() > (n as f64 + 4.0) * 2.0 * EPS32 {
                out.viol("aggregate:validate-accuracy:argmax:single-class", format!("one-unit soft-max output, {} samples: accuracy {:e}, arg-max agreement holds for every sample (1.0)", n, acc), J::obj().set("network", J::s(&cfg.describe())));
            }
        }
    }
    out
}

impl Monitor for C12 {
    fn id(&self) -> &'static str {
        "C12"
    }
    fn gens(&self, tier: Tier) -> Vec<(&'static str, u64)> {
        vec![("aggregate", tier.pick(8400, 168_000)), ("ties", tier.pick(600, 12_000)), ("structures", tier.pick(30_000, 600_000)), ("nan_scoring", tier.pick(3_000, 60_000)), ("single_class", tier.pick(1_500, 30_000))]
    }
    fn rule(&self) -> &'static str {
        "case i -> objective (i mod 7), data-set size from {1,2,3,40,63,64,65,127,128,129,200,257} (i/7 mod 12; the parallel chunk is 64), soft-max output or not, output width 1 or >1, tolerance from {f32::MIN_POSITIVE, 1e-9, log-uniform [1e-12,1e-6], log-uniform [1e-6,0.5], log-uniform [1.5,1e4]}, pool of 1..16 threads; random network ending in a dense layer (dense/conv/deconv/pool before it); in every fifth non-soft-max case a hidden dense layer is soft-max; in every fourth case the output layer itself is the range of a loop connection (1..3 iterations, any of the five loop accumulations, with and without input skips). One data set in five is a slow walk (consecutive inputs a few 1e-6 apart), one in ten repeats earlier inputs exactly, one in ten contains runs of one input handed over as the same tensor object with independently drawn targets. One squared-error case in six contains a sample whose loss overflows to +inf (target 3e20): the reported loss must then not be finite and the accuracy still averages over all samples. One non-soft-max case in five uses exactly one-hot targets (scored by the tolerance fraction all the same). Soft-max targets are one-hot, soft probabilities, log-probabilities (all entries negative) or arbitrary reals with a unique maximum. Targets are generated from the network's own predictions so that every component is clearly inside (an exact hit or |t-p| <= tol/2) or clearly outside (>= 2 tol + 0.01) the tolerance and arg-max ties do not occur. Oracle: harness-side aggregation over the library's own predict() and objective loss(): mean loss (f64, bound n*eps), accuracy by the stated rule; predict_batch(xs)[i] must be bit-equal to predict(xs[i]) in input order (also for 0 inputs), predict(x) bit-equal to the last activation of forward(x). Every second case repeats validate() and predict_batch() on the same network with a shorter prefix of the data. ties: soft-max outputs with exactly equal maxima (uniform distribution): the accuracy must equal the frequency of some single class among the targets, whatever the tie-breaking convention. structures: chains of 3..8 layers (dense / spatial / mixed) with 0..2 skip connections and 1..3 loop connections in any arrangement the library accepts (disjoint, nested, overlapping ranges, with and without input skips), all 5 x 5 accumulation pairs: predict bit-equal to the final activation of forward, predict_batch bit-equal to predict of each input (configurations on which both forward and predict panic are counted, not judged). nan_scoring: non-soft-max outputs with NaN target components, NaN inputs (NaN predictions) or a NaN tolerance: a component whose comparison involves NaN is not within the tolerance and scores as a miss; likewise no distance is below a negative tolerance, distances 1.2, 3 and tol/2 are within a tolerance above one (1.5 ... f32::MAX) while 2 tol + 1 is not, and every finite distance is within an infinite tolerance; only the accuracy is judged. single_class: a soft-max output layer with one unit (constant prediction 1): arg-max agreement holds for every sample, accuracy 1 whatever the targets. Distinct = distinct (network, objective, size, tolerance) descriptors."
    }
    fn assumptions(&self) -> Vec<&'static str> {
        vec!["boundary semantics (|t-p| == tol, arg-max ties) are unspecified and not generated; NaN losses are not judged, a NaN comparison is read as not within the tolerance (nan_scoring)", "per-sample predict() and loss() are trusted here (they are the subject of C02/C06)"]
    }
    fn run(&self, gen: &str, seed: u64, idx: u64, _tier: Tier) -> Out {
        if gen == "ties" {
            return ties_case(seed, idx);
        }
        if gen == "structures" {
            return structures_case(seed, idx);
        }
        if gen == "nan_scoring" {
            return nan_scoring_case(seed, idx);
        }
        if gen == "single_class" {
            return single_class_case(seed, idx);
        }
        let mut rng = Rng::stream(seed, gen, idx);
        let obj = OBJS[(idx % 7) as usize];
        let n = SIZES[((idx / 7) % 12) as usize];
        let softmax = (idx / 84) % 3 == 0;
        let wide = (idx / 84) % 2 == 0 || softmax;
        let tol = match rng.range(0, 8) {
            // (above one: a tolerance is a distance, not a fraction)
            8 => rng.log_in(1.5, 1e4) as f32,
            0 => f32::MIN_POSITIVE,
            1 => 1e-9,
            2 => rng.log_in(1e-12, 1e-6) as f32,
            _ => rng.log_in(1e-6, 0.5) as f32,
        };
        let threads = *rng.pick(&[1usize, 2, 3, 4, 8, 16]);
        let mut o = NetOpts::standard();
        o.max_depth = 3;
        o.min_depth = 1;
        o.max_count = 40;
        o.max_extent = 5;
        o.end_dense = Some(if softmax { Act::Softmax } else if obj.probabilistic() { Act::Sigmoid } else { *rng.pick(&[Act::Linear, Act::Tanh, Act::Sigmoid]) });
        let mut hidden_softmax = false;
        let mut cfg = random_net(&mut rng, &o);
        // fix the output width
        let last = cfg.layers.len() - 1;
        if let LCfg::Dense { n: width, .. } = &mut cfg.layers[last] {
            *width = if wide { rng.range(2, 5) } else { 1 };
        }
        if idx % 5 == 4 && cfg.layers.len() >= 2 {
            insert_block(&mut rng, &mut cfg, 3);
        }
        // every fifth non-soft-max case: a HIDDEN dense layer is soft-max (the accuracy rule is
        // decided by the output layer alone)
        if !softmax && idx % 5 == 1 {
            let last = cfg.layers.len() - 1;
            let hidden: Vec<usize> = (0..last).filter(|i| matches!(cfg.layers[*i], LCfg::Dense { .. })).collect();
            if !hidden.is_empty() {
                let h = *rng.pick(&hidden);
                if let LCfg::Dense { act, .. } = &mut cfg.layers[h] {
                    *act = Act::Softmax;
                }
                hidden_softmax = true;
            }
        }
        // every fourth case: the output layer itself is looped (a dense layer of the output
        // width is put in front of it so that the loop's shapes fit), any loop accumulation
        if idx % 4 == 2 {
            let last = cfg.layers.len() - 1;
            let w_out = match cfg.layers[last] {
                LCfg::Dense { n, .. } => n,
                _ => unreachable!(),
            };
            let act = *rng.pick(&[Act::Tanh, Act::Sigmoid, Act::Linear, Act::Leaky, Act::Relu]);
            cfg.layers.insert(last, LCfg::Dense { n: w_out, act, bias: rng.bool(), dropout: None });
            cfg.loops = vec![(last + 1, last + 1, rng.range(1, 3), rng.bool())];
            cfg.loopacc = ACCS[((idx / 4) % 5) as usize];
        }
        let last = cfg.layers.len() - 1;
        let mut params = gen_params(&cfg, &mut rng, -1.0, 1.0).unwrap();
        // every sixth non-probabilistic case: outputs of magnitude ~50 (linear output layer)
        if idx % 6 == 5 && !obj.probabilistic() && !softmax {
            if let LCfg::Dense { act, .. } = &mut cfg.layers[last] {
                *act = Act::Linear;
            }
            let scaled: Vec<f32> = params[last].flat().iter().map(|v| v * 50.0).collect();
            params[last].set_flat(&scaled);
        }
        let mut out = Out::new(format!("{} {} n{} tol{:e} softmax{} threads{}", obj.name(), cfg.describe(), n, tol, softmax, threads));
        out.cover("sizes", n.to_string());
        if hidden_softmax {
            out.count("non_softmax_outputs_behind_a_hidden_softmax_layer", 1);
        }
        if !cfg.loops.is_empty() {
            out.count("cases_with_a_looped_output_layer", 1);
            out.cover("looped_output_layer_accumulation_x_rule", format!("{}/{}", cfg.loopacc.name(), if softmax { "argmax" } else { "tolerance" }));
        }
        out.cover("objective_x_accuracy_rule", format!("{}/{}", obj.name(), if softmax { "argmax" } else if wide { "fraction" } else { "single" }));
        let mut net = match build(&cfg, Some(&params)) {
            Ok(n) => n,
            Err(m) => {
                out.viol("aggregate:create-panic", format!("building {} panicked: {}", cfg.describe(), short(&m, 160)), J::Null);
                return out;
            }
        };
        net.set_objective(lib_obj(obj), None);
        let width = match cfg.layers[last] {
            LCfg::Dense { n, .. } => n,
            _ => unreachable!(),
        };
        // inputs, predictions, targets
        // one data set in five is a slow walk (consecutive inputs a few 1e-6 apart: different
        // samples that an approximate comparison would take for equal), one in ten contains
        // exact repetitions of earlier inputs
        let family = rng.range(0, 9);
        let mut xs: Vec<Vec<f32>> = Vec::new();
        while xs.len() < n {
            let x: Vec<f32> = match (family, xs.last()) {
                (0 | 1, Some(prev)) => prev.iter().map(|v| v + rng.f32_in(1e-6, 6e-6) * if rng.bool() { 1.0 } else { -1.0 }).collect(),
                (2, Some(_)) if rng.chance(0.3) => xs[rng.range(0, xs.len() - 1)].clone(),
                // runs of the same input (over-sampled data sets); these samples are handed
                // over as the SAME tensor object, their targets are drawn independently
                (3, Some(prev)) if rng.chance(0.5) => prev.clone(),
                _ => (0..cfg.input.count()).map(|_| rng.f32_in(-1.0, 1.0)).collect(),
            };
            xs.push(x);
        }
        if family <= 1 && n >= 2 {
            out.count("data_sets_that_are_slow_walks", 1);
        }
        let x_t: Vec<Tensor> = xs.iter().map(|x| tensor_of(cfg.input, x)).collect();
        let preds: Vec<Vec<f32>> = match guard(|| x_t.iter().map(|x| flat(&net.predict(x))).collect::<Vec<_>>()) {
            Ok(p) => p,
            Err(m) => {
                out.viol("aggregate:predict-panic", format!("predict of {} panicked: {}", cfg.describe(), short(&m, 160)), J::Null);
                return out;
            }
        };
        let mut expect_acc: Vec<f64> = Vec::new();
        let onehot_family = rng.range(0, 4) == 0;
        if onehot_family && wide && !softmax && !obj.probabilistic() {
            out.count("non_softmax_cases_with_one_hot_targets", 1);
        }
        let ts: Vec<Vec<f32>> = preds
            .iter()
            .map(|p| {
                if softmax {
                    // one-hot on the arg-max (hit) or elsewhere (miss); skip ties by construction
                    let am = p.iter().enumerate().fold(0, |b, (i, v)| if *v > p[b] { i } else { b });
                    let unique = p.iter().filter(|v| **v == p[am]).count() == 1;
                    let hit = rng.bool() && unique;
                    let k = if hit { am } else { (am + 1 + rng.range(0, width - 2)) % width };
                    let k = if unique { k } else { am };
                    expect_acc.push(if k == am && unique { 1.0 } else if !unique { f64::NAN } else { 0.0 });
                    // the target's arg-max is k; targets are one-hot, soft probabilities,
                    // log-probabilities (all entries negative) or arbitrary reals
                    match rng.range(0, 5) {
                        0 | 1 => (0..width).map(|i| if i == k { 1.0 } else { 0.0 }).collect(),
                        2 => {
                            let mut t: Vec<f32> = (0..width).map(|_| rng.f32_in(0.01, 0.3)).collect();
                            t[k] = 0.5;
                            let sum: f32 = t.iter().sum();
                            t.iter().map(|v| v / sum).collect()
                        }
                        3 => {
                            let mut t: Vec<f32> = (0..width).map(|_| rng.f32_in(-6.0, -0.7)).collect();
                            t[k] = rng.f32_in(-0.5, -0.05);
                            t
                        }
                        _ => {
                            let mut t: Vec<f32> = (0..width).map(|_| rng.f32_in(-3.0, 1.0)).collect();
                            t[k] = rng.f32_in(1.2, 2.0);
                            t
                        }
                    }
                } else if wide && !obj.probabilistic() && onehot_family {
                    // exactly one-hot targets on a NON-soft-max output: still scored by the
                    // fraction of components within the tolerance
                    let k = rng.range(0, width - 1);
                    let t: Vec<f32> = (0..width).map(|i| if i == k { 1.0 } else { 0.0 }).collect();
                    let hits = t.iter().zip(p.iter()).filter(|(t, v)| (**t - **v).abs() < tol).count();
                    let clear = t.iter().zip(p.iter()).all(|(t, v)| {
                        let d = (t - v).abs();
                        d < 0.75 * tol || d > 1.5 * tol
                    });
                    expect_acc.push(if clear { hits as f64 / width as f64 } else { f64::NAN });
                    t
                } else {
                    let mut hits = 0usize;
                    let t: Vec<f32> = p
                        .iter()
                        .map(|v| {
                            let inside = rng.bool();
                            let mut t = if inside && rng.bool() { *v } else if inside { v + tol * 0.5 * if rng.bool() { 1.0 } else { -1.0 } } else { v + (2.0 * tol + 0.01) * if rng.bool() { 1.0 } else { -1.0 } };
                            if obj.probabilistic() {
                                // keep targets inside [0,1] without changing the side of the tolerance
                                if t < 0.0 || t > 1.0 {
                                    t = 2.0 * v - t;
                                }
                                t = t.clamp(0.0, 1.0);
                            }
                            if (t - v).abs() < tol {
                                hits += 1;
                            }
                            t
                        })
                        .collect();
                    // reject boundary situations created by rounding or clamping
                    let clear = t.iter().zip(p.iter()).all(|(t, v)| {
                        let d = (t - v).abs();
                        d < 0.75 * tol || d > 1.5 * tol
                    });
                    expect_acc.push(if clear { hits as f64 / width as f64 } else { f64::NAN });
                    t
                }
            })
            .collect();
        if expect_acc.iter().any(|a| a.is_nan()) {
            out.nontrivial = false;
            out.count("cases_skipped_because_a_sample_sits_on_a_boundary", 1);
            return out;
        }
        // one case in six (squared-error objectives): one sample carries a target of 3e20, its
        // loss overflows to +inf. The mean over the samples is then not finite, and the accuracy
        // still averages over ALL samples (that sample scores 0)
        let mut ts = ts;
        let overflow_at: Option<usize> = if !softmax && matches!(obj, Obj::MSE | Obj::RMSE) && n >= 2 && rng.range(0, 5) == 0 { Some(rng.range(0, n - 1)) } else { None };
        if let Some(j) = overflow_at {
            for v in ts[j].iter_mut() {
                *v = 3.0e20;
            }
            expect_acc[j] = 0.0;
        }
        let t_t: Vec<Tensor> = ts.iter().map(|t| Tensor::single(t.clone())).collect();
        // per-sample losses through the library's own loss()
        let objf = objective::Function::create(lib_obj(obj), None);
        let losses: Vec<f32> = preds.iter().zip(t_t.iter()).map(|(p, t)| objf.loss(&Tensor::single(p.clone()), t).0).collect();
        let nonfinite: Vec<usize> = (0..n).filter(|i| !losses[*i].is_finite()).collect();
        if !nonfinite.is_empty() && overflow_at.map(|j| nonfinite != vec![j]).unwrap_or(true) {
            out.nontrivial = false;
            out.count("cases_skipped_because_a_sample_loss_is_not_finite", 1);
            return out;
        }
        if overflow_at.is_some() && nonfinite.is_empty() {
            out.nontrivial = false;
            return out;
        }
        let mean_loss: f64 = losses.iter().map(|l| *l as f64).sum::<f64>() / n as f64;
        let mean_abs: f64 = losses.iter().map(|l| (*l as f64).abs()).sum::<f64>() / n as f64;
        let mean_acc: f64 = expect_acc.iter().sum::<f64>() / n as f64;

        let mut xr: Vec<&Tensor> = x_t.iter().collect();
        if family == 3 {
            let mut shared = 0u64;
            for i in 1..n {
                if xs[i] == xs[i - 1] {
                    xr[i] = xr[i - 1];
                    shared += 1;
                }
            }
            out.count("samples_passed_as_the_same_tensor_object_as_their_predecessor", shared);
        }
        let tr: Vec<&Tensor> = t_t.iter().collect();
        let (res, _events) = in_cached_pool(threads, || {
            let v = guard(|| net.validate(&xr, &tr, tol));
            let pb = guard(|| net.predict_batch(&xr));
            let empty = guard(|| net.predict_batch(&Vec::new()));
            let fw = guard(|| xr.iter().take(5).map(|x| (flat(&net.predict(x)), flat(net.forward(x).1.last().unwrap()))).collect::<Vec<_>>());
            (v, pb, empty, fw)
        });
        let (v, pb, empty, fw) = res;
        let detail = || J::obj().set("network", J::s(&cfg.describe())).set("parameters", params_json(&params)).set("objective", J::s(obj.name())).set("samples", J::Int(n as i64)).set("tolerance", J::f(tol as f64)).set("threads", J::Int(threads as i64));
        match v {
            Err(m) => out.viol("aggregate:validate-panic", format!("validate on {} samples panicked: {}", n, short(&m, 160)), detail()),
            Ok((loss, acc)) => {
                out.count("validate_calls", 1);
                let ltol = (n as f64 + 4.0) * 2.0 * EPS32 * mean_abs + 1e-30;
                if overflow_at.is_some() {
                    out.count("validate_calls_with_one_overflowing_sample", 1);
                    if loss.is_finite() {
                        out.viol("aggregate:validate-loss:overflowing-sample", format!("validate over {} samples ({}) of which one has loss +inf reports the finite loss {:e}: not the mean over the samples", n, obj.name(), loss), detail());
                    }
                } else if !loss.is_finite() || (loss as f64 - mean_loss).abs() > ltol {
                    out.viol("aggregate:validate-loss", format!("validate over {} samples ({}): loss {:e}, mean of the per-sample losses {:e} (bound {:e})", n, obj.name(), loss, mean_loss, ltol), detail());
                }
                let atol = (n as f64 + 4.0) * 2.0 * EPS32 + 1e-9;
                if !acc.is_finite() || (acc as f64 - mean_acc).abs() > atol {
                    out.viol(
                        &format!("aggregate:validate-accuracy:{}", if softmax { "argmax" } else { "tolerance" }),
                        format!("validate over {} samples: accuracy {:e}, rule ({}) gives {:e}", n, acc, if softmax { "arg-max agreement" } else { "fraction of components within tolerance" }, mean_acc),
                        detail(),
                    );
                }
            }
        }
        match pb {
            Err(m) => out.viol("aggregate:predict_batch-panic", format!("predict_batch on {} inputs panicked: {}", n, short(&m, 160)), detail()),
            Ok(batch) => {
                out.count("predict_batch_calls", 1);
                if batch.len() != n {
                    out.viol("aggregate:predict_batch-length", format!("predict_batch returned {} outputs for {} inputs", batch.len(), n), detail());
                } else if let Some(i) = (0..n).find(|i| !bits_eq(&flat(&batch[*i]), &preds[*i])) {
                    let elsewhere = (0..n).find(|j| bits_eq(&flat(&batch[i]), &preds[*j]));
                    out.viol("aggregate:predict_batch-order-or-value", format!("predict_batch({} inputs)[{}] differs from predict(inputs[{}]){}", n, i, i, elsewhere.map(|j| format!("; it equals predict(inputs[{}])", j)).unwrap_or_default()), detail());
                }
            }
        }
        match empty {
            Ok(v) if v.is_empty() => {}
            Ok(v) => out.viol("aggregate:predict_batch-empty", format!("predict_batch of no inputs returned {} outputs", v.len()), J::Null),
            Err(m) => out.viol("aggregate:predict_batch-empty-panic", format!("predict_batch of no inputs panicked: {}", short(&m, 160)), J::Null),
        }
        // a second round on the same network with a shorter prefix of the data (nothing sized or
        // remembered from the first calls may leak into the second)
        if n >= 2 && idx % 2 == 0 && overflow_at.is_none() {
            let m = if idx % 4 == 0 { rng.range(1, n - 1) } else { n - 1 };
            let (xm, tm): (Vec<&Tensor>, Vec<&Tensor>) = (xr[..m].to_vec(), tr[..m].to_vec());
            let ((v2, pb2), _) = in_cached_pool(threads, || (guard(|| net.validate(&xm, &tm, tol)), guard(|| net.predict_batch(&xm))));
            let ml: f64 = losses[..m].iter().map(|l| *l as f64).sum::<f64>() / m as f64;
            let mabs: f64 = losses[..m].iter().map(|l| (*l as f64).abs()).sum::<f64>() / m as f64;
            let ma: f64 = expect_acc[..m].iter().sum::<f64>() / m as f64;
            match v2 {
                Err(e) => out.viol("aggregate:second-validate-panic", format!("second validate call ({} of the {} samples) panicked: {}", m, n, short(&e, 160)), detail()),
                Ok((loss, acc)) => {
                    out.count("second_validate_calls_on_a_prefix", 1);
                    if !loss.is_finite() || (loss as f64 - ml).abs() > (m as f64 + 4.0) * 2.0 * EPS32 * mabs + 1e-30 {
                        out.viol("aggregate:second-validate-loss", format!("validate over the first {} samples right after validate over {}: loss {:e}, mean of the per-sample losses {:e}", m, n, loss, ml), detail());
                    }
                    if !acc.is_finite() || (acc as f64 - ma).abs() > (m as f64 + 4.0) * 2.0 * EPS32 + 1e-9 {
                        out.viol("aggregate:second-validate-accuracy", format!("validate over the first {} samples right after validate over {}: accuracy {:e}, the rule gives {:e}", m, n, acc, ma), detail());
                    }
                }
            }
            match pb2 {
                Err(e) => out.viol("aggregate:second-predict_batch-panic", format!("second predict_batch call ({} inputs) panicked: {}", m, short(&e, 160)), detail()),
                Ok(b) => {
                    if b.len() != m || (0..m).any(|i| !bits_eq(&flat(&b[i]), &preds[i])) {
                        out.viol("aggregate:second-predict_batch", format!("predict_batch over the first {} inputs right after predict_batch over {}: {} outputs, not predict of each input in order", m, n, b.len()), detail());
                    }
                }
            }
        }
        match fw {
            Ok(pairs) => {
                if pairs.iter().any(|(a, b)| !bits_eq(a, b)) {
                    out.viol("aggregate:predict-vs-forward", "predict(x) differs from the last activation of forward(x)".into(), detail());
                }
            }
            Err(m) => out.viol("aggregate:forward-panic", format!("forward panicked: {}", short(&m, 160)), detail()),
        }
        if idx < 3 {
            out.sample = Some(detail().set("expected_mean_loss", J::f(mean_loss)).set("expected_accuracy", J::f(mean_acc)));
        }
        out
    }
    fn finish(&self, _tier: Tier, _seed: u64, agg: &mut Agg) {
        agg.require(agg.set_size("sizes") == 12, "data-set sizes not all exercised".into());
        agg.require(agg.count("validate_calls") >= 400, format!("only {} validate calls judged", agg.count("validate_calls")));
        agg.require(agg.set_size("objective_x_accuracy_rule") >= 18, "objective x accuracy-rule combinations missing".into());
        agg.require(agg.count("structured_networks_compared") >= 5000, "too few structured networks".into());
        agg.require(agg.set_size("loop_arrangements") >= 10, format!("only {} loop arrangements", agg.set_size("loop_arrangements")));
    }
}
