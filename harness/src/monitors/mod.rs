use crate::core::Monitor;

pub mod c18;

pub fn get(id: &str) -> Option<Box<dyn Monitor>> {
    match id {
        "C18" => Some(Box::new(c18::C18)),
        _ => None,
    }
}
