//! C13 — early stopping and the returned histories obey their contract.

use crate::cfg::*;
use crate::core::*;
use crate::json::J;
use crate::lib_build::*;
use crate::rng::Rng;
use crate::train::*;
use neurons::tensor::Tensor;
use neurons::verif::Event;

pub struct C13;

/// `P(e)`: more than `t` epochs have run and the validation loss strictly increased throughout
/// the last `t` recorded epochs (epochs are 1-based, `v[e-1]` is the loss recorded in epoch e).
fn should_stop(v: &[f32], e: usize, t: usize) -> bool {
    if e <= t || e > v.len() {
        return false;
    }
    let w = &v[e - t..e];
    w.windows(2).all(|p| p[1] > p[0])
}

fn pattern(v: &[f32], e: usize, t: usize) -> Option<String> {
    if e <= t || e > v.len() {
        return None;
    }
    let w = &v[e - t..e];
    Some(w.windows(2).map(|p| if p[1] > p[0] { '<' } else if p[1] == p[0] { '=' } else { '>' }).collect())
}

/// Long tolerance windows (T up to 200) whose comparison pattern is a long run of rises
/// interrupted by isolated single plateaus at every position of the window.
///
/// One weight, x = 1, AE objective, plain SGD: the weight grows by exactly the learning rate
/// per epoch (the training target is far away), the validation loss is |(-S) - w| = S + w with
/// S = 2^k.  The learning rate is (1 - 1/P) ulp(S), so the recorded single-precision loss rises
/// by one ulp in all but every P-th epoch, where it repeats its value.  P < T: every window holds
/// a plateau, training must run to the end; P >= T: the first full window of rises must stop it.
fn long_windows(seed: u64, idx: u64) -> Out {
    let mut rng = Rng::stream(seed, "long_windows", idx);
    let mut out = Out::new(String::new());
    let t = match idx % 4 {
        0 => *rng.pick(&[7usize, 8, 9, 15, 16, 17, 31, 32, 33, 63, 64, 65, 66, 127, 128, 129, 130, 191, 192, 193]),
        _ => rng.range(7, 200),
    };
    // period of the plateaus in epochs
    let p = match (idx / 4) % 4 {
        0 => t - 1,
        1 => rng.range(t / 2 + 1, t - 1),
        2 => rng.range(t, t + 20),
        _ => rng.range(3, 2 * t),
    }
    .max(3);
    let e_budget = (t + 1 + rng.range(0, 2 * t)).min(420);
    let k = rng.range(4, 30) as i32;
    let s_val = 2.0f32.powi(k);
    let ulp = 2.0f32.powi(k - 23);
    let lr = ulp * (1.0 - 1.0 / p as f32);
    let cfg = NetCfg::plain(Sh::Flat(1), vec![LCfg::Dense { n: 1, act: Act::Linear, bias: false, dropout: None }]);
    let params = vec![P::Dense { w: vec![vec![0.0]], b: None }];
    let train = DataSet::new(Sh::Flat(1), vec![vec![1.0]], vec![vec![3.0e9]]);
    let val = DataSet::new(Sh::Flat(1), vec![vec![1.0]], vec![vec![-s_val]]);
    let desc = format!("long window: T{} E{} plateau period {} S=2^{} lr={:e}", t, e_budget, p, k, lr);
    let mut net = match build(&cfg, Some(&params)) {
        Ok(n) => n,
        Err(m) => {
            out.inconclusive = Some(format!("cannot build: {}", m));
            return out;
        }
    };
    net.set_objective(lib_obj(Obj::AE), None);
    net.set_optimizer(OptCfg::Sgd { lr, decay: None }.build());
    let (xr, tr) = (train.x_refs(), train.t_refs());
    let (vxr, vtr) = (val.x_refs(), val.t_refs());
    let (res, events) = in_cached_pool(2, || guard(|| net.learn(&xr, &tr, Some((&vxr, &vtr, t as i32)), 1, e_budget as i32, None)));
    let (tl, vl, va) = match res {
        Ok(r) => r,
        Err(m) => {
            out.viol("history:learn-panic", format!("learn panicked: {} [{}]", short(&m, 160), desc), J::s(&desc));
            return out;
        }
    };
    out.count("learn_runs", 1);
    out.count("long_window_runs", 1);
    let n = vl.len();
    let detail = || J::obj().set("case", J::s(&desc)).set("tolerance", J::Int(t as i64)).set("epochs", J::Int(e_budget as i64)).set("validation_loss", J::f32s(&vl)).set("entries", J::Int(n as i64));
    let mut steps: Vec<i32> = events
        .iter()
        .filter_map(|e| match e {
            Event::Update { stepnr, .. } => Some(*stepnr),
            _ => None,
        })
        .collect();
    steps.dedup();
    let executed = steps.len();
    out.key = format!("T{} E{} P{} k{}", t, e_budget, p, k);
    if tl.len() != n || va.len() != n || n > e_budget || n == 0 {
        out.viol("history:lengths", format!("train {} / validation {} / accuracy {} entries for a budget of {} epochs [{}]", tl.len(), n, va.len(), e_budget, desc), detail());
        return out;
    }
    if executed != n {
        out.viol("history:epochs-vs-entries", format!("{} epochs were executed (event log) but {} entries were returned [{}]", executed, n, desc), detail());
    }
    for e in 1..n {
        if should_stop(&vl, e, t) {
            out.viol("history:continued-past-stop", format!("the validation loss strictly increased over the last {} epochs at epoch {} but training continued to epoch {} [{}]", t, e, n, desc), detail());
            break;
        }
    }
    if n < e_budget && !should_stop(&vl, n, t) {
        let w = &vl[n - t.min(n)..n];
        let flats: Vec<usize> = w.windows(2).enumerate().filter(|(_, q)| !(q[1] > q[0])).map(|(i, _)| i).collect();
        out.viol(
            "history:stopped-early-without-cause",
            format!("training stopped after {} of {} epochs although the last {} validation losses do not strictly increase (no rise at window positions {:?}) [{}]", n, e_budget, t, flats, desc),
            detail(),
        );
    }
    // what the window looked like at the decision points
    let mut single = 0u64;
    for e in (t + 1)..=n {
        let w = &vl[e - t..e];
        let nonrise: Vec<usize> = w.windows(2).enumerate().filter(|(_, q)| !(q[1] > q[0])).map(|(i, _)| i).collect();
        if nonrise.len() == 1 {
            single += 1;
            if t <= 200 {
                out.cover("single_plateau_tolerance_x_position", format!("T{}:{}", t, nonrise[0]));
            }
        }
    }
    out.count("decision_points_whose_window_has_exactly_one_plateau", single);
    out.cover("long_outcomes", format!("{}:{}", if t < 64 { "T<64" } else if t < 128 { "T64..127" } else { "T>=128" }, if n < e_budget { "stopped-early" } else { "ran-to-completion" }));
    if idx < 2 {
        out.sample = Some(detail());
    }
    out
}

const DYADIC: [f32; 8] = [0.25, 0.5, 1.0, 2.0, -0.5, -1.0, 1.5, 0.75];

impl Monitor for C13 {
    fn id(&self) -> &'static str {
        "C13"
    }
    fn gens(&self, tier: Tier) -> Vec<(&'static str, u64)> {
        vec![("histories", tier.pick(90_000, 1_800_000)), ("long_windows", tier.pick(6_000, 120_000))]
    }
    fn rule(&self) -> &'static str {
        "case = one real learn() run of a tiny model (dense(1) or dense(2)->dense(1), linear / ReLU / tanh, bias optional) on 1..3 training and 1..3 validation samples with dyadic inputs, targets, initial weights and learning rates (0.125..2), objective AE or MSE (one case in five: KL divergence or BCE on a sigmoid output with targets in (0,1), which makes negative validation losses), batch 1..3, so that the validation loss really falls, rises from the first epoch, is V-shaped, oscillates (AE steps of fixed size around the optimum, MSE beyond the stable learning rate) or sits on plateaus of exactly equal values (AE gradient 0 at an exact hit, validation inputs 0, dead ReLU); tolerance T in 1..6 (one case in sixteen: 65536, 10^6, 2^30, i32::MAX - 1 or i32::MAX, which can never be reached), epoch budget E in 1..15, with and (every 5th) without validation data (one run in eight passes the training vectors themselves as validation data), print frequency None / 1 / 2..4 / 100. The offline checker takes the returned vectors v (validation loss), train, accuracy: |train| = |acc| = |v| = n <= E; no e < n with P(e); n < E implies P(n), where P(e) = e > T and v strictly increasing over the last T recorded epochs; without validation data n = E and the other vectors are empty. Independently the event log must show exactly n distinct update step numbers 1..n. Every third case calls learn() a second time on the same network (own tolerance 1..4 and budget 1..10, with validation data) and applies the same checker to that call's vectors. long_windows: tolerance 7..200 (the values around 16, 32, 64, 128, 192 over-represented), budget T+1..3T+1; one weight, x = 1, AE, SGD with learning rate (1 - 1/P) ulp(S): the weight rises by the learning rate every epoch and the validation loss S + w (S = 2^k) recorded in single precision rises by one ulp except for an isolated repeat every P-th epoch, so the tolerance window is a run of rises with a single plateau that visits every window position as the window slides (P < T: training must run to the end; P >= T: it must stop at the first full window of rises, never before epoch T+1); same offline checker; evidence lists the (T, plateau position) pairs seen at decision points. Distinct = distinct (T, E, loss vector) triples; floors: all 13 window comparison patterns for T <= 3 observed at decision points, early stops and full-length runs for every T."
    }
    fn assumptions(&self) -> Vec<&'static str> {
        vec!["no value is injected into the library: trajectories come from real training", "NaN validation losses are not generated (comparisons with NaN are unspecified)"]
    }
    fn run(&self, gen: &str, seed: u64, idx: u64, _tier: Tier) -> Out {
        if gen == "long_windows" {
            return long_windows(seed, idx);
        }
        let mut rng = Rng::stream(seed, gen, idx);
        let mut t = 1 + (idx % 6) as usize;
        let e_budget = 1 + ((idx / 6) % 15) as usize;
        // one case in sixteen: a tolerance that can never be reached ("report validation metrics,
        // never stop early"), up to the largest value the argument type holds
        if (idx / 7) % 16 == 9 {
            t = *rng.pick(&[i32::MAX as usize, i32::MAX as usize - 1, 1usize << 30, 1_000_000, 65_536]);
        }
        let with_val = (idx / 90) % 5 != 4;
        // one case in five: KL divergence on a sigmoid output that is not normalised - the loss
        // t ln(t/p) is negative when the prediction exceeds the target, and training drives it
        // further down (negative, strictly decreasing histories); sometimes BCE
        let prob = rng.chance(0.2);
        let obj = if prob { *rng.pick(&[Obj::KL, Obj::KL, Obj::BCE]) } else if rng.bool() { Obj::AE } else { Obj::MSE };
        let hidden = rng.chance(0.3);
        let act = *rng.pick(&[Act::Linear, Act::Linear, Act::Relu, Act::Tanh]);
        let bias = rng.chance(0.3);
        let out_act = if prob { Act::Sigmoid } else { Act::Linear };
        let layers = if hidden {
            vec![LCfg::Dense { n: 2, act, bias, dropout: None }, LCfg::Dense { n: 1, act: out_act, bias: false, dropout: None }]
        } else {
            vec![LCfg::Dense { n: 1, act: if prob { Act::Sigmoid } else { act }, bias, dropout: None }]
        };
        let cfg = NetCfg::plain(Sh::Flat(1), layers);
        // dyadic parameters
        let mut params = gen_params(&cfg, &mut rng, -1.0, 1.0).unwrap();
        for p in params.iter_mut() {
            let n = p.count();
            let vals: Vec<f32> = (0..n).map(|_| *rng.pick(&DYADIC)).collect();
            p.set_flat(&vals);
        }
        let lr = *rng.pick(&[0.125f32, 0.25, 0.5, 1.0, 2.0]);
        let n_train = rng.range(1, 3);
        let n_val = rng.range(1, 3);
        let batch = rng.range(1, 3);
        // the print frequency must not influence anything that is returned
        let print: Option<i32> = match rng.range(0, 9) {
            0 => Some(1),
            1 => Some(rng.range(2, 4) as i32),
            2 => Some(100),
            _ => None,
        };
        let pt = |rng: &mut Rng| -> (Vec<f32>, Vec<f32>) { (vec![*rng.pick(&[1.0f32, -1.0, 0.5, 2.0, 0.0, -0.5])], vec![if prob { *rng.pick(&[0.125f32, 0.25, 0.5, 0.75, 0.0625]) } else { *rng.pick(&[0.0f32, 1.0, -1.0, 2.0, 0.5, 4.0, -3.0]) }]) };
        let (mut txs, mut tts) = (Vec::new(), Vec::new());
        for _ in 0..n_train {
            let (x, y) = pt(&mut rng);
            txs.push(x);
            tts.push(y);
        }
        let (mut vxs, mut vts) = (Vec::new(), Vec::new());
        for _ in 0..n_val {
            let (x, y) = pt(&mut rng);
            vxs.push(x);
            vts.push(y);
        }
        let train = DataSet::new(Sh::Flat(1), txs, tts);
        let val = DataSet::new(Sh::Flat(1), vxs, vts);
        let desc = format!("{} lr{} {} T{} E{} print{:?} batch{} train{:?}->{:?} val{:?}->{:?} w{:?}", cfg.describe(), lr, obj.name(), t, e_budget, print, batch, train.xs, train.ts, val.xs, val.ts, params.iter().map(|p| p.flat()).collect::<Vec<_>>());
        let mut out = Out::new(String::new());
        let mut net = match build(&cfg, Some(&params)) {
            Ok(n) => n,
            Err(m) => {
                out.inconclusive = Some(format!("cannot build {}: {}", cfg.describe(), m));
                return out;
            }
        };
        net.set_objective(lib_obj(obj), None);
        net.set_optimizer(OptCfg::Sgd { lr, decay: None }.build());
        let (xr, tr) = (train.x_refs(), train.t_refs());
        let (vxr, vtr) = (val.x_refs(), val.t_refs());
        let same_object = with_val && (idx / 13) % 8 == 5;
        if same_object {
            out.count("runs_validated_on_the_training_vectors_themselves", 1);
        }
        let (res, events) = in_cached_pool(2, || {
            guard(|| {
                // (one case in eight hands the very same vector objects over as training and as
                // validation data)
                let validation: Option<(&Vec<&Tensor>, &Vec<&Tensor>, i32)> = if with_val { Some(if same_object { (&xr, &tr, t as i32) } else { (&vxr, &vtr, t as i32) }) } else { None };
                net.learn(&xr, &tr, validation, batch, e_budget as i32, print)
            })
        });
        let (tl, vl, va) = match res {
            Ok(r) => r,
            Err(m) => {
                if m.contains("Loss is NaN") {
                    out.nontrivial = false;
                    out.count("runs_aborted_by_the_documented_NaN_loss_panic", 1);
                } else {
                    out.viol("history:learn-panic", format!("learn panicked: {} [{}]", short(&m, 160), desc), J::s(&desc));
                }
                return out;
            }
        };
        out.count("learn_runs", 1);
        let detail = || J::obj().set("case", J::s(&desc)).set("tolerance", J::Int(t as i64)).set("epochs", J::Int(e_budget as i64)).set("train_loss", J::f32s(&tl)).set("validation_loss", J::f32s(&vl)).set("accuracy", J::f32s(&va));
        // epochs actually executed according to the event log
        let mut steps: Vec<i32> = events
            .iter()
            .filter_map(|e| match e {
                Event::Update { stepnr, .. } => Some(*stepnr),
                _ => None,
            })
            .collect();
        steps.dedup();
        let executed = steps.len();
        if steps != (1..=executed as i32).collect::<Vec<_>>() {
            out.viol("history:step-numbers", format!("update step numbers are {:?}, expected 1..n [{}]", steps, desc), detail());
        }
        if !with_val {
            out.cover("modes", "without-validation".into());
            if tl.len() != e_budget || !vl.is_empty() || !va.is_empty() {
                out.viol("history:no-validation-lengths", format!("without validation data: {} training entries for {} epochs, {} validation-loss and {} accuracy entries [{}]", tl.len(), e_budget, vl.len(), va.len(), desc), detail());
            }
            if executed != e_budget {
                out.viol("history:no-validation-epochs", format!("without validation data {} of {} epochs were executed [{}]", executed, e_budget, desc), detail());
            }
            out.key = format!("noval E{} {:?}", e_budget, tl);
            return out;
        }
        out.cover("modes", "with-validation".into());
        let n = vl.len();
        if vl.iter().any(|v| *v < 0.0) {
            out.count("histories_with_negative_validation_losses", 1);
            if vl.len() >= 3 && vl.windows(2).all(|p| p[1] < p[0]) {
                out.count("negative_strictly_decreasing_histories", 1);
            }
            if vl.len() >= 3 && vl.windows(2).all(|p| p[1] > p[0]) {
                out.count("negative_strictly_increasing_histories", 1);
            }
        }
        out.key = format!("T{} E{} {:?}", t, e_budget, vl);
        if vl.iter().any(|v| v.is_nan()) {
            out.nontrivial = false;
            out.count("runs_with_NaN_validation_loss_not_judged", 1);
            return out;
        }
        if tl.len() != n || va.len() != n || n > e_budget || n == 0 {
            out.viol("history:lengths", format!("train {} / validation {} / accuracy {} entries for a budget of {} epochs [{}]", tl.len(), n, va.len(), e_budget, desc), detail());
            return out;
        }
        if executed != n {
            out.viol("history:epochs-vs-entries", format!("{} epochs were executed (event log) but {} entries were returned [{}]", executed, n, desc), detail());
        }
        for e in 1..n {
            if should_stop(&vl, e, t) {
                out.viol(
                    "history:continued-past-stop",
                    format!("validation loss {:?} strictly increased over the last {} epochs at epoch {} (> tolerance epochs run) but training continued to epoch {} [{}]", &vl[..e], t, e, n, desc),
                    detail(),
                );
                break;
            }
        }
        if n < e_budget && !should_stop(&vl, n, t) {
            out.viol(
                "history:stopped-early-without-cause",
                format!("training stopped after {} of {} epochs although the validation loss {:?} did not strictly increase over the last {} epochs (or only {} epochs had run) [{}]", n, e_budget, vl, t, n, desc),
                detail(),
            );
        }
        // coverage: comparison patterns seen at decision points
        for e in 1..=n {
            if let Some(p) = pattern(&vl, e, t) {
                out.cover("tolerance_x_window_pattern", format!("T{}:{}", t, p));
            }
        }
        out.cover("outcome_per_tolerance", format!("T{}:{}", t, if n < e_budget { "stopped-early" } else { "ran-to-completion" }));
        // a later learn() call on the same (already trained) network obeys the same contract,
        // counted from that call's own first epoch
        if idx % 3 == 1 {
            let t2 = rng.range(1, 4);
            let e2 = rng.range(1, 10);
            let (res2, events2) = in_cached_pool(2, || guard(|| net.learn(&xr, &tr, Some((&vxr, &vtr, t2 as i32)), batch, e2 as i32, None)));
            match res2 {
                Err(m) => {
                    if !m.contains("Loss is NaN") {
                        out.viol("history:second-call:learn-panic", format!("second learn() call panicked: {} [{}]", short(&m, 160), desc), J::s(&desc));
                    }
                }
                Ok((tl2, vl2, va2)) => {
                    out.count("second_learn_calls_judged", 1);
                    let n2 = vl2.len();
                    let d2 = || detail().set("second_call_tolerance", J::Int(t2 as i64)).set("second_call_epochs", J::Int(e2 as i64)).set("second_call_validation_loss", J::f32s(&vl2));
                    let mut steps2: Vec<i32> = events2
                        .iter()
                        .filter_map(|e| match e {
                            Event::Update { stepnr, .. } => Some(*stepnr),
                            _ => None,
                        })
                        .collect();
                    steps2.dedup();
                    if vl2.iter().any(|v| v.is_nan()) {
                        out.count("runs_with_NaN_validation_loss_not_judged", 1);
                    } else if tl2.len() != n2 || va2.len() != n2 || n2 > e2 || n2 == 0 {
                        out.viol("history:second-call:lengths", format!("second learn() call: train {} / validation {} / accuracy {} entries for a budget of {} epochs [{}]", tl2.len(), n2, va2.len(), e2, desc), d2());
                    } else {
                        if steps2.len() != n2 {
                            out.viol("history:second-call:epochs-vs-entries", format!("second learn() call: {} epochs were executed (event log) but {} entries were returned [{}]", steps2.len(), n2, desc), d2());
                        }
                        if let Some(e) = (1..n2).find(|e| should_stop(&vl2, *e, t2)) {
                            out.viol("history:second-call:continued-past-stop", format!("second learn() call: validation loss {:?} strictly increased over the last {} epochs at epoch {} but training continued to epoch {} [{}]", &vl2[..e], t2, e, n2, desc), d2());
                        }
                        if n2 < e2 && !should_stop(&vl2, n2, t2) {
                            out.viol(
                                "history:second-call:stopped-early-without-cause",
                                format!("second learn() call (tolerance {}, {} epochs requested) on a network already trained for {} epochs stopped after {} epochs although its validation losses {:?} did not strictly increase over the last {} recorded epochs [{}]", t2, e2, n, n2, vl2, t2, desc),
                                d2(),
                            );
                        }
                        out.cover("second_call_outcomes", format!("{}", if n2 < e2 { "stopped-early" } else { "ran-to-completion" }));
                    }
                }
            }
        }
        if idx < 4 {
            out.sample = Some(detail());
        }
        out
    }
    fn finish(&self, _tier: Tier, _seed: u64, agg: &mut Agg) {
        let pats = agg.sets.get("tolerance_x_window_pattern").cloned().unwrap_or_default();
        let need: Vec<String> = {
            let mut v = vec!["T1:".to_string()];
            for a in ['<', '=', '>'] {
                v.push(format!("T2:{}", a));
                for b in ['<', '=', '>'] {
                    v.push(format!("T3:{}{}", a, b));
                }
            }
            v
        };
        let missing: Vec<&String> = need.iter().filter(|p| !pats.contains(*p)).collect();
        agg.require(missing.is_empty(), format!("window patterns never observed at a decision point: {:?}", missing));
        let outcomes = agg.set_size("outcome_per_tolerance");
        agg.require(outcomes >= 12, format!("only {} of 12 (tolerance, outcome) combinations observed", outcomes));
        agg.require(agg.count("learn_runs") >= 3000, "too few learn runs".into());
        agg.require(agg.count("negative_strictly_decreasing_histories") >= 100, "too few negative decreasing histories".into());
        agg.require(agg.count("second_learn_calls_judged") >= 1000, "too few second learn() calls".into());
        agg.require(agg.set_size("second_call_outcomes") == 2, "second learn() calls: not both outcomes observed".into());
        agg.require(agg.count("long_window_runs") >= 1000, "too few long-window runs".into());
        agg.require(agg.set_size("long_outcomes") == 6, format!("long windows: only {} of 6 (tolerance class, outcome) combinations", agg.set_size("long_outcomes")));
        agg.require(agg.set_size("single_plateau_tolerance_x_position") >= 5000, format!("only {} (tolerance, plateau position) pairs observed", agg.set_size("single_plateau_tolerance_x_position")));
    }
}
