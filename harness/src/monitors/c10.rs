//! C10 — feedback blocks keep their repeated layers weight-tied.

use crate::cfg::*;
use crate::core::*;
use crate::gen::*;
use crate::json::J;
use crate::lib_build::*;
use crate::rng::Rng;
use crate::train::*;
use neurons::network::{Layer, Network};
use neurons::tensor::Tensor;

pub struct C10;

/// For every block of the network: are all unrolled copies bit-identical? Returns a description
/// of the first difference.
fn untied(net: &Network, cfg: &NetCfg) -> Option<String> {
    for (li, (layer, l)) in net.layers.iter().zip(cfg.layers.iter()).enumerate() {
        if let (Layer::Feedback(block), LCfg::Feedback { body, loops, .. }) = (layer, l) {
            let len = body.len();
            if block.layers.len() != len * loops {
                return Some(format!("block at layer {} has {} unrolled layers, expected {} x {}", li, block.layers.len(), len, loops));
            }
            for q in 0..len {
                let mut first: Option<Vec<(String, Vec<f32>)>> = None;
                for c in 0..*loops {
                    let mut ps = Vec::new();
                    match &block.layers[c * len + q] {
                        Layer::Dense(d) => {
                            ps.push(("weights".to_string(), flat(d.verif_weights())));
                            if let Some(b) = d.verif_bias() {
                                ps.push(("bias".to_string(), flat(b)));
                            }
                        }
                        Layer::Convolution(k) => {
                            for (f, t) in k.verif_kernels().iter().enumerate() {
                                ps.push((format!("kernel {}", f), flat(t)));
                            }
                        }
                        Layer::Deconvolution(k) => {
                            for (f, t) in k.verif_kernels().iter().enumerate() {
                                ps.push((format!("kernel {}", f), flat(t)));
                            }
                        }
                        _ => {}
                    }
                    match &first {
                        None => first = Some(ps),
                        Some(f0) => {
                            for ((name, a), (_, b)) in f0.iter().zip(ps.iter()) {
                                if !bits_eq(a, b) {
                                    let k = a.iter().zip(b.iter()).position(|(x, y)| x.to_bits() != y.to_bits()).unwrap_or(0);
                                    return Some(format!("block at layer {}: body layer {} {}: repetition 0 holds {:e}, repetition {} holds {:e} (element {})", li, q, name, a.get(k).cloned().unwrap_or(f32::NAN), c, b.get(k).cloned().unwrap_or(f32::NAN), k));
                                }
                            }
                            if f0.len() != ps.len() {
                                return Some(format!("block at layer {}: repetitions hold different numbers of parameter tensors", li));
                            }
                        }
                    }
                }
            }
        }
    }
    None
}

fn count_params(cfg: &NetCfg, params: &[P]) -> usize {
    // every shared parameter once
    let _ = cfg;
    params.iter().map(|p| p.count()).sum()
}

fn announced_count(net: &Network) -> Option<usize> {
    let text = format!("{}", net);
    text.lines().filter_map(|l| l.trim().strip_prefix("parameters: ")).next().and_then(|s| s.trim().parse().ok())
}

impl Monitor for C10 {
    fn id(&self) -> &'static str {
        "C10"
    }
    fn gens(&self, tier: Tier) -> Vec<(&'static str, u64)> {
        vec![("histories", tier.pick(24_000, 480_000))]
    }
    fn rule(&self) -> &'static str {
        "case i -> coupling accumulation (i mod 4: add, subtract, multiply, mean), optimizer kind (i/4 mod 5, state sized by set_optimizer), block representation (i/20 mod 2: dense body on a flat shape / convolution+deconvolution body on a spatial shape, every third of those with deconvolution+max-pool pairs inside), loops 1..4, body of 1..3 layers with and without bias, block first / after a layer / followed by a dense layer, batch 1..8, 1..10 learn() calls of which some are exactly one optimizer step (epochs = 1, batch >= N) and some several steps. Invariant checked at every quiescent point (after creation, after installing weights, after EVERY learn() call): all unrolled repetitions of each body layer hold bit-identical weights, biases and kernels; and the `parameters:` line of Display equals the independently computed count with each shared parameter counted once. A panic inside learn() is a violation when it leaves the block partially updated (repetitions no longer identical); panics that leave the block tied are counted separately. Distinct = distinct configuration descriptors. Every third longer learn() call passes validation data (the training inputs with negated targets, tolerance 1..2, 4..8 epochs) so that training stops early; the repetitions must be tied after such calls as after any other."
    }
    fn assumptions(&self) -> Vec<&'static str> {
        vec!["Overwrite coupling is `unimplemented!` in the library by documentation and is counted as unsupported, not generated", "non-finite weights (diverged training, e.g. additive coupling multiplies the weights by the loop count every step) end a history: NaN != NaN would make bit comparison meaningless"]
    }
    fn run(&self, gen: &str, seed: u64, idx: u64, _tier: Tier) -> Out {
        let mut rng = Rng::stream(seed, gen, idx);
        let acc = [Acc::Add, Acc::Sub, Acc::Mul, Acc::Mean][(idx % 4) as usize];
        let opt = gen_optimizer(&mut rng, ((idx / 4) % 5) as usize);
        let spatial = (idx / 20) % 2 == 1;
        let loops = rng.range(1, 4);
        let acts = [Act::Tanh, Act::Sigmoid, Act::Linear, Act::Leaky];
        let block_sh = if spatial { Sh::Sp(rng.range(1, 2), rng.range(2, 4), rng.range(2, 4)) } else { Sh::Flat(rng.range(1, 5)) };
        // every third spatial block may contain max-pool layers (deconvolution + max-pool pairs):
        // they hold no parameters, but the layers around them do (creation-time tying and the
        // parameter count; the library cannot train such blocks, which is counted below)
        let with_pool = spatial && (idx / 40) % 3 == 2;
        let blen = if with_pool { rng.range(2, 4) } else { rng.range(1, 3) };
        let body = preserving_body(&mut rng, block_sh, blen, &acts, with_pool);
        let block = LCfg::Feedback { body, loops, inskips: rng.chance(0.3), outskips: rng.chance(0.3), acc };
        let position = rng.range(0, 2);
        let out_dense = LCfg::Dense { n: rng.range(1, 3), act: Act::Linear, bias: true, dropout: None };
        let (input, layers) = match (position, block_sh) {
            (0, s) => (s, vec![block.clone(), out_dense]),
            (1, Sh::Flat(n)) => (Sh::Flat(rng.range(2, 4)), vec![LCfg::Dense { n, act: Act::Tanh, bias: true, dropout: None }, block.clone(), out_dense]),
            (1, Sh::Sp(c, h, w)) => (
                Sh::Sp(1, h, w),
                vec![LCfg::Conv { filters: c, kernel: (3, 3), stride: (1, 1), padding: (1, 1), dilation: (1, 1), act: Act::Tanh, dropout: None }, block.clone(), out_dense],
            ),
            (_, s) => (s, vec![block.clone(), block.clone(), out_dense]),
        };
        let cfg = NetCfg::plain(input, layers);
        let desc = format!("{} | {} | coupling {}", cfg.describe(), opt.describe(), acc.name());
        let mut out = Out::new(desc.clone());
        out.cover("coupling_x_optimizer_x_representation", format!("{}/{}/{}", acc.name(), opt.name(), if spatial { "spatial" } else { "flat" }));
        out.cover("loops", loops.to_string());
        if cfg.shapes().is_err() {
            out.inconclusive = Some(format!("generator produced an invalid network {}", cfg.describe()));
            return out;
        }
        let params = gen_params(&cfg, &mut rng, -0.7, 0.7).unwrap();
        let detail = || J::obj().set("case", J::s(&desc)).set("parameters", params_json(&params));
        // creation (random weights from the library itself)
        let fresh = match build(&cfg, None) {
            Ok(n) => n,
            Err(m) => {
                out.viol("tying:create-panic", format!("creating {} panicked: {}", cfg.describe(), short(&m, 160)), detail());
                return out;
            }
        };
        out.count("quiescent_points_checked", 1);
        if let Some(d) = untied(&fresh, &cfg) {
            out.viol("tying:untied-at-creation", format!("{} [{}]", d, desc), detail());
        }
        match announced_count(&fresh) {
            Some(n) if n == count_params(&cfg, &params) => out.count("parameter_counts_checked", 1),
            other => out.viol("tying:parameter-count", format!("Display announces parameters: {:?}, counting each shared parameter once gives {} [{}]", other, count_params(&cfg, &params), desc), detail()),
        }
        let mut net = match build(&cfg, Some(&params)) {
            Ok(n) => n,
            Err(m) => {
                out.viol("tying:create-panic", format!("{}", short(&m, 160)), detail());
                return out;
            }
        };
        net.set_objective(lib_obj(Obj::MSE), None);
        net.set_optimizer(opt.build());
        let outputs = match cfg.layers.last().unwrap() {
            LCfg::Dense { n, .. } => *n,
            _ => 1,
        };
        let n_train = rng.range(1, 8);
        let data = random_data(&mut rng, cfg.input, n_train, outputs, Obj::MSE, false);
        let (xr, tr) = (data.x_refs(), data.t_refs());
        // validation targets: the negated training targets (fitting the training set makes the
        // validation loss rise)
        let vt: Vec<Tensor> = data.ts.iter().map(|t| Tensor::single(t.iter().map(|v| -*v).collect())).collect();
        let vtr: Vec<&Tensor> = vt.iter().collect();
        let dense_last = matches!(cfg.layers.last(), Some(LCfg::Dense { .. }));
        let calls = rng.range(1, 10);
        for call in 0..calls {
            let one_step = rng.bool();
            let (batch, epochs) = if one_step { (n_train + rng.range(0, 2), 1) } else { (rng.range(1, 8), rng.range(1, 3)) };
            // every third call of the longer kind passes validation data with a small tolerance
            // (the validation set is the training set with other targets, whose loss soon rises),
            // so that learn() may stop early / treat the weights of its best epoch specially
            let with_val = !one_step && call % 3 == 1 && dense_last;
            let (epochs, tol) = if with_val { (rng.range(4, 8), rng.range(1, 2) as i32) } else { (epochs, 100) };
            let (r, _) = in_cached_pool(2, || {
                guard(|| {
                    if with_val {
                        net.learn(&xr, &tr, Some((&xr, &vtr, tol)), batch, epochs as i32, None)
                    } else {
                        net.learn(&xr, &tr, None, batch, epochs as i32, None)
                    }
                })
            });
            if let Ok((tl, _, _)) = &r {
                if with_val {
                    out.count("learn_calls_with_validation_data", 1);
                    if tl.len() < epochs {
                        out.count("learn_calls_that_stopped_early", 1);
                    }
                }
            }
            match r {
                Err(m) => {
                    if m.contains("Loss is NaN") {
                        out.count("histories_ended_by_the_documented_NaN_loss_panic", 1);
                        break;
                    }
                    let conv_body = spatial;
                    let sig = if (m.contains("Invalid sub") || m.contains("Invalid mul")) && conv_body { format!("tying:update-panic:{}:nested-kernels", acc.name()) } else { format!("tying:update-panic:{}", acc.name()) };
                    let after = untied(&net, &cfg);
                    if after.is_none() {
                        // learn() failed before any parameter was changed: the repetitions are
                        // still tied, so nothing C10 states is violated (such panics - e.g. the
                        // backward pass of a flattened spatial block with internal skips - are
                        // reported in DESIGN.md as observations outside the given properties).
                        out.count("learn_panics_that_left_the_block_tied_(not_a_C10_violation)", 1);
                        out.cover("panics_outside_C10", short(&m, 60));
                        break;
                    }
                    out.viol(
                        &sig,
                        format!("learn() call {} panicked: {}; afterwards the repetitions are {} [{}]", call + 1, short(&m, 120), match &after {
                            Some(d) => format!("no longer tied: {}", d),
                            None => "still tied".to_string(),
                        }, desc),
                        detail(),
                    );
                    break;
                }
                Ok(_) => {
                    out.count("quiescent_points_checked", 1);
                    out.count(if one_step { "learn_calls_of_exactly_one_step" } else { "learn_calls_of_several_steps" }, 1);
                    let all = get_params(&net);
                    if all.iter().any(|(_, v)| v.iter().any(|x| !x.is_finite())) {
                        out.count("histories_ended_because_weights_became_non_finite", 1);
                        break;
                    }
                    if let Some(d) = untied(&net, &cfg) {
                        out.viol(&format!("tying:untied-after-learn:{}", acc.name()), format!("after learn() call {} ({}): {} [{}]", call + 1, if one_step { "one step" } else { "several steps" }, d, desc), detail());
                        break;
                    }
                }
            }
        }
        if idx < 3 {
            out.sample = Some(detail().set("learn_calls", J::Int(calls as i64)));
        }
        out
    }
    fn finish(&self, _tier: Tier, _seed: u64, agg: &mut Agg) {
        agg.require(agg.set_size("coupling_x_optimizer_x_representation") == 40, format!("{} of 40 coupling x optimizer x representation combinations", agg.set_size("coupling_x_optimizer_x_representation")));
        agg.require(agg.count("quiescent_points_checked") >= 6000, format!("{} quiescent points", agg.count("quiescent_points_checked")));
    }
}
