//! C15 — element-wise tensor arithmetic is exact, rank-generic and shape-checked.

use crate::core::*;
use crate::json::J;
use crate::lib_build::{flat, shape_consistent, shape_dims};
use crate::refmodel::EPS32;
use crate::rng::Rng;
use neurons::tensor::{hadamard3d, Tensor};

pub struct C15;

/// Builds a tensor of rank `dims.len()` (1..=4) from row-major data.
pub fn mk(dims: &[usize], data: &[f32]) -> Tensor {
    let mut it = data.iter().cloned();
    match dims.len() {
        1 => Tensor::single((0..dims[0]).map(|_| it.next().unwrap()).collect()),
        2 => Tensor::double((0..dims[0]).map(|_| (0..dims[1]).map(|_| it.next().unwrap()).collect()).collect()),
        3 => Tensor::triple((0..dims[0]).map(|_| (0..dims[1]).map(|_| (0..dims[2]).map(|_| it.next().unwrap()).collect()).collect()).collect()),
        4 => Tensor::quadruple(
            (0..dims[0])
                .map(|_| (0..dims[1]).map(|_| (0..dims[2]).map(|_| (0..dims[3]).map(|_| it.next().unwrap()).collect()).collect()).collect())
                .collect(),
        ),
        _ => panic!("harness: rank"),
    }
}

fn values(rng: &mut Rng, n: usize, fam: usize) -> Vec<f32> {
    const SPECIAL: [f32; 15] = [0.0, -0.0, 1e-45, -1e-45, 1.1754942e-38, f32::MAX, f32::MIN, 1.0, -1.0, 2.5e38, -2.5e38, 16777216.0, f32::INFINITY, f32::NEG_INFINITY, f32::NAN];
    (0..n)
        .map(|_| match fam {
            0 => rng.f32_in(-10.0, 10.0),
            1 => *rng.pick(&SPECIAL),
            2 => (rng.normal() * 1e19) as f32 * (rng.normal() * 1e19) as f32 * 0.5,
            3 => f32::from_bits(rng.range(0, 0x00ffffff) as u32),
            // small dyadic palette: equal elements, exact ones, sums that cancel or hit 1
            5 => *rng.pick(&crate::monitors::c02::PALETTE),
            // sorted data (ascending / descending runs)
            6 => 0.0,
            _ => (rng.normal() as f32) * 10f32.powi(rng.range(0, 12) as i32 - 6),
        })
        .map(|v| if v.is_finite() { v } else { f32::MAX })
        .collect::<Vec<f32>>()
        .into_iter()
        .enumerate()
        .map(|(i, v)| if fam == 6 { (if n % 2 == 0 { i as f32 } else { (n - i) as f32 }) * 0.75 - 2.0 } else { v })
        .collect()
}

fn same_bits(a: f32, b: f32) -> bool {
    a.to_bits() == b.to_bits() || (a.is_nan() && b.is_nan())
}

fn dims_for(rng: &mut Rng, rank: usize, max: usize) -> Vec<usize> {
    let mut d: Vec<usize> = (0..rank).map(|_| rng.range(1, max)).collect();
    // every eighth shape is long in one direction (sizes around the powers of two at which
    // chunked or blocked loops would switch)
    if rng.range(0, 7) == 0 {
        let k = rng.range(0, rank - 1);
        d[k] = *rng.pick(&[31usize, 32, 33, 63, 64, 65, 127, 128, 129, 255, 257, 1025, 4097]);
        while d.iter().product::<usize>() > 20_000 {
            let j = (0..rank).filter(|j| *j != k).max_by_key(|j| d[*j]).unwrap_or(k);
            if j == k || d[j] == 1 {
                break;
            }
            d[j] -= 1;
        }
    }
    d
}

fn product(d: &[usize]) -> usize {
    d.iter().product()
}

fn check_shape(t: &Tensor, dims: &[usize], op: &str, out: &mut Out) {
    if shape_dims(&t.shape) != dims || !shape_consistent(t) {
        out.viol(&format!("{}:shape-changed", op), format!("{} on shape {:?}: result records shape {:?}, consistent={}", op, dims, shape_dims(&t.shape), shape_consistent(t)), J::Null);
    }
}

fn binary_case(rng: &mut Rng, idx: u64, out: &mut Out) {
    let ops = ["add", "sub", "mul", "hadamard"];
    let op = ops[(idx % 4) as usize];
    let rank = 1 + ((idx / 4) % 4) as usize;
    let fam = ((idx / 16) % 7) as usize;
    let dims = dims_for(rng, rank, 5);
    let n = product(&dims);
    let a = values(rng, n, fam);
    let fam_b = if rng.bool() { fam } else { 0 };
    let b = values(rng, n, fam_b);
    let scalar = *rng.pick(&[1.0f32, 0.5, 0.25, -1.0, 1.0 / 3.0, 0.0, 1e-20, 3e20]);
    out.key = format!("{} rank{} {:?} fam{}", op, rank, dims, fam);
    out.cover("op_rank", format!("{}/{}", op, rank));
    out.cover("shapes", format!("{:?}", dims));
    let mut t = mk(&dims, &a);
    let u = mk(&dims, &b);
    let r = guard(|| {
        match op {
            "add" => t.add_inplace(&u),
            "sub" => t.sub_inplace(&u),
            "mul" => t.mul_inplace(&u),
            _ => t.hadamard(&u, scalar),
        };
        t
    });
    let t = match r {
        Ok(t) => t,
        Err(m) => {
            out.viol(&format!("{}:panic-on-equal-shapes", op), format!("{} of two rank-{} tensors {:?} panicked: {}", op, rank, dims, short(&m, 160)), J::Null);
            return;
        }
    };
    check_shape(&t, &dims, op, out);
    let got = flat(&t);
    for i in 0..n {
        let ok = match op {
            "add" => same_bits(got[i], a[i] + b[i]),
            "sub" => same_bits(got[i], a[i] - b[i]),
            "mul" => same_bits(got[i], a[i] * b[i]),
            _ => same_bits(got[i], a[i] * b[i] * scalar) || same_bits(got[i], a[i] * (b[i] * scalar)) || same_bits(got[i], (a[i] * scalar) * b[i]),
        };
        if !ok {
            out.viol(
                &format!("{}:value", op),
                format!("{} rank {} {:?}: element {}: {:e} op {:e} (scalar {:e}) gave {:e}", op, rank, dims, i, a[i], b[i], scalar, got[i]),
                J::obj().set("a", J::f32s(&a)).set("b", J::f32s(&b)),
            );
            break;
        }
    }
    out.count("elementwise_results_compared_bit_exact", n as u64);
    // rank-generic: the same numbers laid out as a vector must give bit-identical results
    if rank > 1 {
        let mut v = mk(&[n], &a);
        let w = mk(&[n], &b);
        if guard(|| match op {
            "add" => v.add_inplace(&w),
            "sub" => v.sub_inplace(&w),
            "mul" => v.mul_inplace(&w),
            _ => v.hadamard(&w, scalar),
        })
        .is_ok()
        {
            let flat1 = flat(&v);
            if let Some(i) = (0..n).find(|i| !same_bits(flat1[*i], got[*i])) {
                out.viol(
                    &format!("{}:rank-dependence", op),
                    format!("{} of {:e} and {:e} (scalar {:e}) gives {:e} in a rank-{} tensor but {:e} in a vector", op, a[i], b[i], scalar, got[i], rank, flat1[i]),
                    J::obj().set("a", J::f(a[i] as f64)).set("b", J::f(b[i] as f64)).set("scalar", J::f(scalar as f64)).set("rank", J::Int(rank as i64)),
                );
            }
            out.count("rank_genericity_comparisons", 1);
        }
    }
}

fn mismatch_case(rng: &mut Rng, idx: u64, out: &mut Out) {
    let ops = ["add", "sub", "mul", "hadamard", "mean"];
    let op = ops[(idx % 5) as usize];
    let r1 = 1 + ((idx / 5) % 4) as usize;
    let d1 = dims_for(rng, r1, 4);
    // a different shape: other rank, or same rank with one extent changed
    let d2 = if rng.bool() {
        let mut d = d1.clone();
        let k = rng.range(0, r1 - 1);
        d[k] = if d[k] == 1 { rng.range(2, 5) } else if rng.bool() { d[k] + 1 } else { d[k] - 1 };
        d
    } else {
        let mut r2 = rng.range(1, 4);
        if r2 == r1 {
            r2 = 1 + r1 % 4;
        }
        // often the same number of elements in another rank
        if rng.bool() {
            let mut d = vec![1; r2];
            d[r2 - 1] = product(&d1);
            d
        } else {
            dims_for(rng, r2, 4)
        }
    };
    out.key = format!("mismatch {} {:?} vs {:?}", op, d1, d2);
    out.cover("mismatch_rank_pairs", format!("{}/{}->{}", op, d1.len(), d2.len()));
    let a = values(rng, product(&d1), 0);
    let b = values(rng, product(&d2), 0);
    let before = a.clone();
    let mut t = mk(&d1, &a);
    let u = mk(&d2, &b);
    let r = std::panic::catch_unwind(std::panic::AssertUnwindSafe(|| match op {
        "add" => t.add_inplace(&u),
        "sub" => t.sub_inplace(&u),
        "mul" => t.mul_inplace(&u),
        "hadamard" => t.hadamard(&u, 1.0),
        _ => {
            let same = mk(&d1, &a);
            t.mean_inplace(&vec![&same, &u])
        }
    }));
    out.count("mismatched_pairs_tried", 1);
    if r.is_ok() {
        out.viol(&format!("{}:mismatch-accepted", op), format!("{} accepted operands of shapes {:?} and {:?}", op, d1, d2), J::Null);
    } else if !crate::lib_build::bits_eq(&flat(&t), &before) {
        out.viol(&format!("{}:mismatch-partial-result", op), format!("{} refused shapes {:?} / {:?} but left the left operand modified", op, d1, d2), J::Null);
    }
}

fn scalar_case(rng: &mut Rng, idx: u64, out: &mut Out) {
    let rank = 1 + (idx % 4) as usize;
    let fam = ((idx / 4) % 7) as usize;
    let dims = dims_for(rng, rank, 5);
    let n = product(&dims);
    let a = values(rng, n, fam);
    let s = *rng.pick(&[2.0f32, 3.0, -7.0, 0.0, 1e-30, 1e30, 0.1, -0.0, 1e-45]);
    out.key = format!("div rank{} {:?} fam{} / {:e}", rank, dims, fam, s);
    out.cover("op_rank", format!("div/{}", rank));
    let mut t = mk(&dims, &a);
    match guard(|| {
        t.div_scalar_inplace(s);
        t
    }) {
        Err(m) => out.viol("div:panic", format!("div_scalar_inplace({:e}) on rank {} panicked: {}", s, rank, short(&m, 160)), J::Null),
        Ok(t) => {
            check_shape(&t, &dims, "div", out);
            let got = flat(&t);
            for i in 0..n {
                if !same_bits(got[i], a[i] / s) {
                    out.viol("div:value", format!("{:e} / {:e} gave {:e}", a[i], s, got[i]), J::Null);
                    break;
                }
            }
            out.count("elementwise_results_compared_bit_exact", n as u64);
        }
    }
    // clamp, same tensor
    let (lo, hi) = {
        let x = rng.f32_in(-5.0, 5.0);
        let y = rng.f32_in(-5.0, 5.0);
        if rng.chance(0.1) {
            (x, x)
        } else {
            (x.min(y), x.max(y))
        }
    };
    match guard(|| mk(&dims, &a).clamp(lo, hi)) {
        Err(m) => out.viol("clamp:panic", format!("clamp({},{}) on rank {} panicked: {}", lo, hi, rank, short(&m, 160)), J::Null),
        Ok(t) => {
            check_shape(&t, &dims, "clamp", out);
            let got = flat(&t);
            for i in 0..n {
                let want = a[i].max(lo).min(hi);
                if !(got[i] >= lo && got[i] <= hi) || !same_bits(got[i], want) && !(got[i] == want) {
                    out.viol("clamp:value", format!("clamp({:e}, {}, {}) gave {:e}", a[i], lo, hi, got[i]), J::Null);
                    break;
                }
            }
            out.count("clamp_elements", n as u64);
            out.cover("op_rank", format!("clamp/{}", rank));
        }
    }
}

fn mean_case(rng: &mut Rng, idx: u64, out: &mut Out) {
    let rank = 1 + (idx % 4) as usize;
    let k = 1 + ((idx / 4) % 6) as usize;
    let dims = dims_for(rng, rank, 4);
    let n = product(&dims);
    let fam = *rng.pick(&[0usize, 0, 4, 5, 6]);
    let a = values(rng, n, fam);
    let mut others: Vec<Vec<f32>> = (0..k).map(|_| values(rng, n, fam)).collect();
    out.key = format!("mean rank{} k{} {:?}", rank, k, dims);
    out.cover("op_rank", format!("mean/{}", rank));
    out.cover("mean_k", k.to_string());
    // every fifth list (k >= 2) names the same tensor OBJECT more than once (a bootstrapped list
    // of references): the mean counts it as often as it is listed
    let repeat = k >= 2 && (idx / 24) % 5 == 2;
    let mut slot: Vec<usize> = (0..k).collect();
    if repeat {
        let from = rng.range(0, k - 2);
        let to = rng.range(from + 1, k - 1);
        slot[to] = from;
        others[to] = others[from].clone();
        out.count("mean_lists_with_a_repeated_reference", 1);
    }
    let ts: Vec<Tensor> = others.iter().map(|o| mk(&dims, o)).collect();
    let refs: Vec<&Tensor> = slot.iter().map(|s| &ts[*s]).collect();
    let mut t = mk(&dims, &a);
    match guard(|| {
        t.mean_inplace(&refs);
        t
    }) {
        Err(m) => out.viol("mean:panic", format!("mean_inplace over {} tensors of rank {} panicked: {}", k, rank, short(&m, 160)), J::Null),
        Ok(t) => {
            check_shape(&t, &dims, "mean", out);
            let got = flat(&t);
            // up to four others: the result must be bit-equal to SOME single-precision evaluation
            // of the mean (terms added in any order, the receiver first / last / anywhere; then
            // divided by n, multiplied by 1/n, or every term divided first)
            if k <= 4 && fam != 4 {
                for i in 0..n {
                    let terms: Vec<f32> = std::iter::once(a[i]).chain(others.iter().map(|o| o[i])).collect();
                    if terms.iter().any(|v| !v.is_finite()) {
                        continue;
                    }
                    let nn = (k + 1) as f32;
                    let mut ok = false;
                    let mut perm: Vec<usize> = (0..terms.len()).collect();
                    let mut c = vec![0usize; terms.len()];
                    let mut check = |p: &Vec<usize>| -> bool {
                        let fold: f32 = p.iter().skip(1).fold(terms[p[0]], |acc, j| acc + terms[*j]);
                        let rest: f32 = p.iter().skip(2).fold(terms[p[1 % p.len()]], |acc, j| acc + terms[*j]);
                        let paired = if p.len() >= 2 { terms[p[0]] + rest } else { terms[p[0]] };
                        let divided: f32 = p.iter().skip(1).fold(terms[p[0]] / nn, |acc, j| acc + terms[*j] / nn);
                        [fold / nn, fold * (1.0 / nn), paired / nn, paired * (1.0 / nn), divided].iter().any(|w| w.to_bits() == got[i].to_bits() || (*w == 0.0 && got[i] == 0.0))
                    };
                    // Heap's algorithm over the term orders
                    if check(&perm) {
                        ok = true;
                    }
                    let mut q = 0;
                    while !ok && q < perm.len() {
                        if c[q] < q {
                            if q % 2 == 0 {
                                perm.swap(0, q);
                            } else {
                                perm.swap(c[q], q);
                            }
                            if check(&perm) {
                                ok = true;
                            }
                            c[q] += 1;
                            q = 0;
                        } else {
                            c[q] = 0;
                            q += 1;
                        }
                    }
                    out.count("mean_elements_matched_against_single_precision_evaluations", 1);
                    if !ok {
                        out.viol("mean:not-single-precision", format!("mean over {} tensors of rank {}, element {}: {:e} is not the result of any single-precision evaluation of the mean of {:?}", k + 1, rank, i, got[i], terms), J::Null);
                        break;
                    }
                }
            }
            for i in 0..n {
                let sum: f64 = a[i] as f64 + others.iter().map(|o| o[i] as f64).sum::<f64>();
                let abs: f64 = (a[i] as f64).abs() + others.iter().map(|o| (o[i] as f64).abs()).sum::<f64>();
                let want = sum / (k + 1) as f64;
                if !got[i].is_finite() || (got[i] as f64 - want).abs() > (k + 2) as f64 * 2.0 * EPS32 * abs / (k + 1) as f64 + 1e-44 {
                    out.viol("mean:value", format!("mean over {} tensors, element {}: got {:e}, expected {:e}", k + 1, i, got[i], want), J::Null);
                    break;
                }
            }
            out.count("mean_elements", n as u64);
        }
    }
}

/// A nested list of the members; `depth` 1: the plain list, 2: the first `g` members form a
/// list of their own (a list of lists, as the gradient list of a layer with several kernels),
/// 3: that inner list is wrapped once more.
fn nest_deep(members: Vec<Tensor>, depth: usize, g: usize) -> Tensor {
    if depth <= 1 {
        return Tensor::nested(members);
    }
    let mut members = members;
    let rest = members.split_off(g.min(members.len()));
    let mut inner = Tensor::nested(members);
    for _ in 2..depth {
        inner = Tensor::nested(vec![inner]);
    }
    let mut outer = vec![inner];
    outer.extend(rest);
    Tensor::nested(outer)
}

fn nested_case(rng: &mut Rng, idx: u64, out: &mut Out) {
    let parts = rng.range(1, 4);
    let mut dims_list = Vec::new();
    let mut a_list = Vec::new();
    let mut b_list = Vec::new();
    for _ in 0..parts {
        let rk = rng.range(1, 4);
        let d = dims_for(rng, rk, 3);
        a_list.push(values(rng, product(&d), 0));
        b_list.push(values(rng, product(&d), (idx % 2) as usize));
        dims_list.push(d);
    }
    // every second case: lists of lists (depth 2 or 3)
    let depth = if idx % 2 == 1 { 2 + ((idx / 2) % 2) as usize } else { 1 };
    let g = rng.range(1, parts);
    out.key = format!("nested {:?} depth {} ({} inner)", dims_list, depth, g);
    out.cover("op_rank", "add/nested".into());
    out.cover("nesting_depth", depth.to_string());
    let mut t = nest_deep(dims_list.iter().zip(a_list.iter()).map(|(d, a)| mk(d, a)).collect(), depth, g);
    let u = nest_deep(dims_list.iter().zip(b_list.iter()).map(|(d, b)| mk(d, b)).collect(), depth, g);
    match guard(|| {
        t.add_inplace(&u);
        t
    }) {
        Err(m) => out.viol("add:nested:panic", format!("add_inplace on nested tensors (depth {}) panicked: {}", depth, short(&m, 160)), J::Null),
        Ok(t) => {
            let got = flat(&t);
            let want: Vec<f32> = a_list.iter().flatten().zip(b_list.iter().flatten()).map(|(x, y)| x + y).collect();
            if !crate::lib_build::bits_eq(&got, &want) {
                out.viol("add:nested:value", "add_inplace on nested tensors is not the element-wise sum".into(), J::Null);
            }
        }
    }
    // nested optional
    let opt = |l: &Vec<Vec<f32>>, mask: u64| -> Tensor { Tensor::nestedoptional(dims_list.iter().zip(l.iter()).enumerate().map(|(i, (d, a))| if (mask >> i) & 1 == 1 { None } else { Some(mk(d, a)) }).collect()) };
    let mask = rng.u64() % 4;
    let mut t = opt(&a_list, mask);
    let u = opt(&b_list, mask);
    out.cover("op_rank", "add/nested-optional".into());
    match guard(|| {
        t.add_inplace(&u);
        t
    }) {
        Err(m) => out.viol("add:nestedoptional:panic", format!("add_inplace on optional nested tensors panicked: {}", short(&m, 160)), J::Null),
        Ok(t) => {
            let want: Vec<f32> = a_list.iter().zip(b_list.iter()).enumerate().filter(|(i, _)| (mask >> i) & 1 == 0).flat_map(|(_, (a, b))| a.iter().zip(b.iter()).map(|(x, y)| x + y).collect::<Vec<f32>>()).collect();
            if !crate::lib_build::bits_eq(&flat(&t), &want) {
                out.viol("add:nestedoptional:value", "add_inplace on optional nested tensors is not the element-wise sum".into(), J::Null);
            }
        }
    }
    // optional nested lists whose absent members sit at DIFFERENT positions: members are paired
    // by position; where the operand has none, the receiver's member stays as it is
    {
        let full = (1u64 << parts) - 1;
        let (ma, mb) = (rng.u64() & full, rng.u64() & full);
        let mut t = opt(&a_list, ma);
        let u = opt(&b_list, mb);
        match guard(|| {
            t.add_inplace(&u);
            t
        }) {
            Err(m) => {
                // refusing lists whose presence patterns differ is a legitimate reading as well;
                // what is not acceptable is a wrong sum
                let _ = m;
                out.count("optional_lists_with_different_presence_patterns_refused", 1);
            }
            Ok(t) => {
                out.count("optional_lists_with_different_presence_patterns_added", 1);
                let want: Vec<f32> = a_list
                    .iter()
                    .zip(b_list.iter())
                    .enumerate()
                    .filter(|(i, _)| (ma >> i) & 1 == 0)
                    .flat_map(|(i, (a, b))| if (mb >> i) & 1 == 0 { a.iter().zip(b.iter()).map(|(x, y)| x + y).collect::<Vec<f32>>() } else { a.clone() })
                    .collect();
                if !crate::lib_build::bits_eq(&flat(&t), &want) {
                    out.viol("add:nestedoptional:positions", format!("add_inplace on optional nested lists with presence patterns {:b} / {:b} (1 = absent) does not pair the members by position", ma, mb), J::Null);
                }
            }
        }
    }
    // scalar division of a nested list
    let s = *rng.pick(&[2.0f32, 3.0, 0.5, -4.0]);
    let mut t = nest_deep(dims_list.iter().zip(a_list.iter()).map(|(d, a)| mk(d, a)).collect(), depth, g);
    out.cover("op_rank", "div/nested".into());
    match guard(|| {
        t.div_scalar_inplace(s);
        t
    }) {
        Err(m) => out.viol("div:nested:panic", format!("div_scalar_inplace on nested tensors (depth {}) panicked: {}", depth, short(&m, 160)), J::Null),
        Ok(t) => {
            let want: Vec<f32> = a_list.iter().flatten().map(|x| x / s).collect();
            if !crate::lib_build::bits_eq(&flat(&t), &want) {
                out.viol("div:nested:value", "div_scalar_inplace on nested tensors is not the element-wise quotient".into(), J::Null);
            }
        }
    }
    // mismatched nested lists are refused
    if parts > 0 {
        let mut t = Tensor::nested(dims_list.iter().zip(a_list.iter()).map(|(d, a)| mk(d, a)).collect());
        let mut other: Vec<Tensor> = dims_list.iter().zip(b_list.iter()).map(|(d, b)| mk(d, b)).collect();
        other.push(mk(&[2], &[1.0, 2.0]));
        let u = Tensor::nested(other);
        if guard(|| t.add_inplace(&u)).is_ok() {
            out.viol("add:nested:mismatch-accepted", format!("add_inplace accepted nested lists of {} and {} tensors", parts, parts + 1), J::Null);
        }
        out.count("mismatched_pairs_tried", 1);
        // equal list length, one member of the same rank but another extent
        let k = rng.range(0, parts - 1);
        let mut d2 = dims_list[k].clone();
        let ax = rng.range(0, d2.len() - 1);
        d2[ax] = if d2[ax] > 1 && rng.bool() { d2[ax] - 1 } else { d2[ax] + 1 };
        let before: Vec<f32> = a_list.iter().flatten().cloned().collect();
        let mut t = Tensor::nested(dims_list.iter().zip(a_list.iter()).map(|(d, a)| mk(d, a)).collect());
        let other: Vec<Tensor> = dims_list.iter().zip(b_list.iter()).enumerate().map(|(i, (d, b))| if i == k { mk(&d2, &vec![1.5; product(&d2)]) } else { mk(d, b) }).collect();
        let u = Tensor::nested(other);
        let r = std::panic::catch_unwind(std::panic::AssertUnwindSafe(|| t.add_inplace(&u)));
        out.count("mismatched_pairs_tried", 1);
        if r.is_ok() {
            out.viol("add:nested:member-mismatch-accepted", format!("add_inplace accepted nested lists whose member {} has shapes {:?} and {:?}", k, dims_list[k], d2), J::Null);
        } else {
            // members before the offending one may already have been added (the operation is
            // in place and refuses by panicking), but nothing may be written into or beyond it
            let after = flat(&t);
            let off: usize = dims_list[..k].iter().map(|d| product(d)).sum();
            if after.len() != before.len() || !crate::lib_build::bits_eq(&after[off..], &before[off..]) {
                out.viol("add:nested:member-mismatch-partial", format!("add_inplace refused member {} ({:?} vs {:?}) but modified it or later members", k, dims_list[k], d2), J::Null);
            }
        }
    }
}

fn linalg_case(rng: &mut Rng, idx: u64, out: &mut Out) {
    let (mut r, mut c) = (rng.range(1, 7), rng.range(1, 7));
    if idx % 5 == 4 {
        let big = *rng.pick(&[63usize, 64, 65, 127, 128, 129, 130, 255, 257, 1023, 1025, 4095, 4096, 4097]);
        if rng.bool() {
            r = big;
        } else {
            c = big;
        }
        out.count("linalg_cases_with_a_long_dimension", 1);
    }
    let fam = [0usize, 4, 5, 0, 6, 5][(idx % 6) as usize];
    let m = values(rng, r * c, fam);
    let x = values(rng, c, fam);
    let y = values(rng, r, fam);
    out.key = format!("linalg {}x{} fam{}", r, c, fam);
    let mt = mk(&[r, c], &m);
    // outer product y (r) x (c) -> r x c, exact single multiplication
    out.cover("op_rank", "outer".into());
    match guard(|| mk(&[r], &y).product(&mk(&[c], &x))) {
        Err(e) => out.viol("outer:panic", format!("product panicked: {}", short(&e, 160)), J::Null),
        Ok(t) => {
            let got = flat(&t);
            let want: Vec<f32> = y.iter().flat_map(|a| x.iter().map(move |b| a * b)).collect();
            if shape_dims(&t.shape) != vec![r, c] || !shape_consistent(&t) {
                out.viol("outer:shape", format!("outer product of {} and {} elements has shape {:?}", r, c, shape_dims(&t.shape)), J::Null);
            } else if !crate::lib_build::bits_eq(&got, &want) {
                out.viol("outer:value", "outer product is not a_i * b_j".into(), J::obj().set("a", J::f32s(&y)).set("b", J::f32s(&x)));
            }
        }
    }
    // matrix-vector product
    out.cover("op_rank", "matvec".into());
    match guard(|| mt.dot(&mk(&[c], &x))) {
        Err(e) => out.viol("matvec:panic", format!("dot panicked: {}", short(&e, 160)), J::Null),
        Ok(t) => {
            let got = flat(&t);
            if shape_dims(&t.shape) != vec![r] || !shape_consistent(&t) {
                out.viol("matvec:shape", format!("({}x{}) . ({}) has shape {:?}", r, c, c, shape_dims(&t.shape)), J::Null);
            } else {
                for i in 0..r {
                    let want: f64 = (0..c).map(|j| m[i * c + j] as f64 * x[j] as f64).sum();
                    let abs: f64 = (0..c).map(|j| (m[i * c + j] as f64 * x[j] as f64).abs()).sum();
                    if !got[i].is_finite() || (got[i] as f64 - want).abs() > (c + 2) as f64 * 2.0 * EPS32 * abs + 1e-44 {
                        out.viol("matvec:value", format!("row {}: got {:e}, expected {:e}", i, got[i], want), J::obj().set("m", J::f32s(&m)).set("x", J::f32s(&x)));
                        break;
                    }
                }
            }
        }
    }
    // transpose
    out.cover("op_rank", "transpose".into());
    match guard(|| mt.transpose()) {
        Err(e) => out.viol("transpose:panic", format!("transpose panicked: {}", short(&e, 160)), J::Null),
        Ok(t) => {
            let got = flat(&t);
            let want: Vec<f32> = (0..c).flat_map(|j| (0..r).map(move |i| (i, j))).map(|(i, j)| m[i * c + j]).collect();
            if shape_dims(&t.shape) != vec![c, r] || !shape_consistent(&t) {
                out.viol("transpose:shape", format!("transpose of {}x{} has shape {:?}", r, c, shape_dims(&t.shape)), J::Null);
            } else if !crate::lib_build::bits_eq(&got, &want) {
                out.viol("transpose:value", format!("transpose of {}x{} is not m[j][i]", r, c), J::f32s(&m));
            }
        }
    }
    // hadamard3d on equal shapes
    let d = dims_for(rng, 3, 4);
    let n = product(&d);
    let (a, b) = (values(rng, n, fam), values(rng, n, 0));
    let s = *rng.pick(&[1.0f32, 0.5, 1.0 / 3.0]);
    let nest = |v: &[f32]| -> Vec<Vec<Vec<f32>>> {
        let mut it = v.iter();
        (0..d[0]).map(|_| (0..d[1]).map(|_| (0..d[2]).map(|_| *it.next().unwrap()).collect()).collect()).collect()
    };
    out.cover("op_rank", "hadamard3d".into());
    match guard(|| hadamard3d(&nest(&a), &nest(&b), s)) {
        Err(e) => out.viol("hadamard3d:panic", format!("hadamard3d panicked: {}", short(&e, 160)), J::Null),
        Ok(v) => {
            let got: Vec<f32> = v.iter().flatten().flatten().cloned().collect();
            let dims_ok = v.len() == d[0] && v.iter().all(|x| x.len() == d[1] && x.iter().all(|r| r.len() == d[2]));
            let vals_ok = got.len() == n && (0..n).all(|i| same_bits(got[i], a[i] * b[i] * s) || same_bits(got[i], a[i] * (b[i] * s)) || same_bits(got[i], (a[i] * s) * b[i]));
            if !dims_ok || !vals_ok {
                out.viol("hadamard3d:value", format!("hadamard3d on {:?} (scalar {}) is not a*b*s element-wise", d, s), J::Null);
            }
        }
    }
}

impl Monitor for C15 {
    fn id(&self) -> &'static str {
        "C15"
    }
    fn gens(&self, tier: Tier) -> Vec<(&'static str, u64)> {
        let k = tier.pick(60, 1200);
        vec![("binary", 8000 * k), ("mismatch", 4000 * k), ("scalar", 3000 * k), ("mean", 3000 * k), ("nested", 1500 * k), ("linalg", 2000 * k)]
    }
    fn rule(&self) -> &'static str {
        "binary: (op in add/sub/mul/hadamard) x (rank 1..4) x (content family: random, special values incl. +-0, denormals, +-MAX, +-inf, NaN, overflowing products, bit-pattern denormals, log-scaled, a dyadic palette {-2,-1,-0.5,0,0.5,1,2}, sorted ramps) on random shapes with extents 1..5: result bit-equal to the IEEE f32 operation performed by the harness (any association for the scaled Hadamard product), bit-identical to the same operation on the numbers laid out as a vector (rank-generic), shape unchanged. mismatch: same ops + mean on operand pairs of different extent or rank (incl. equal element count in another rank): must panic and leave the left operand untouched. scalar: division by scalars incl. 0, tiny, huge + clamp. mean: k = 1..6 others; for k <= 4 every element must be bit-equal to some single-precision evaluation of the mean (any order of the additions, division or reciprocal multiplication, or term-wise division), beyond that within the rounding bound. nested: Nested / NestedOptional add (absent members at equal and at different positions in the two operands), Nested scalar division, both also on lists of lists (nesting depth 2 and 3 in every second case), nested length mismatch and member-shape mismatch. linalg: outer product (bit-exact), matrix-vector product (f64 with dot-product bound), transpose, hadamard3d. Distinct = distinct (op, rank, shape, family) descriptors."
    }
    fn assumptions(&self) -> Vec<&'static str> {
        vec!["hadamard3d is documented as not validating lengths, so it is only driven with equal shapes", "NaN results (inf-inf, 0*inf) are matched as NaN"]
    }
    fn run(&self, gen: &str, seed: u64, idx: u64, _tier: Tier) -> Out {
        let mut rng = Rng::stream(seed, gen, idx);
        let mut out = Out::new(String::new());
        match gen {
            "binary" => binary_case(&mut rng, idx, &mut out),
            "mismatch" => mismatch_case(&mut rng, idx, &mut out),
            "scalar" => scalar_case(&mut rng, idx, &mut out),
            "mean" => mean_case(&mut rng, idx, &mut out),
            "nested" => nested_case(&mut rng, idx, &mut out),
            "linalg" => linalg_case(&mut rng, idx, &mut out),
            _ => panic!("unknown generator {}", gen),
        }
        if idx < 1 {
            out.sample = Some(J::obj().set("generator", J::s(gen)).set("case", J::s(&out.key)));
        }
        out
    }
    fn finish(&self, _tier: Tier, _seed: u64, agg: &mut Agg) {
        agg.require(agg.set_size("op_rank") >= 4 * 4 + 4 + 4 + 4 + 3 + 4, format!("only {} (operation, rank) combinations exercised", agg.set_size("op_rank")));
        agg.require(agg.count("mismatched_pairs_tried") >= 3000, "too few mismatch pairs".into());
    }
}
