//! C11 — a feedback block computes the repeated, optionally skip-combined, layer sequence.

use crate::cfg::*;
use crate::core::*;
use crate::gen::*;
use crate::json::J;
use crate::lib_build::*;
use crate::monitors::c02::{cmp_e, sh_dims};
use crate::refmodel::*;
use crate::rng::Rng;
use neurons::tensor::Tensor;

pub struct C11;

pub fn case_json(cfg: &NetCfg, params: &[P], x: &[f32]) -> J {
    J::obj().set("network", J::s(&cfg.describe())).set("parameters", params_json(params)).set("input", J::f32s(x))
}

impl Monitor for C11 {
    fn id(&self) -> &'static str {
        "C11"
    }
    fn gens(&self, tier: Tier) -> Vec<(&'static str, u64)> {
        vec![("blocks", tier.pick(160 * 2000, 160 * 40_000))]
    }
    fn rule(&self) -> &'static str {
        "case i -> (flat | spatial block) x loops L in 1..4 x input-skips x output-skips x accumulation in {add, subtract, multiply, mean, overwrite} (the 160-point grid is walked completely, 40+ times), body of 1..3 random shape-preserving layers (dense; 'same' convolutions incl. dilation 2, size-preserving deconvolutions, deconvolution+max-pool pairs), the block placed first / after a layer of matching representation / before a dense layer (flattened output) / last; repetition-free weights in [-1,1]; Network::predict is compared with the reference block (L-fold application with shared weights, repetition r>1 fed combine(previous output, block input), output = combine(last, earlier outputs)) within the running f32 error bound. Every fourth case puts dropout 0.5 on the block's layers and sends the network object through a learn() call with two epochs, after which the installed weights are put back, before predicting: the block must still compute the dropout-free sequence. Every fourth case trains the network for 1..3 epochs on two samples (SGD 0.05, batch 1..2) and predicts with the weights training left behind: the reference block then uses the weights read from the block's first repetition for all repetitions. Distinct = distinct configuration descriptors."
    }
    fn assumptions(&self) -> Vec<&'static str> {
        vec!["reference block semantics written from the property statement (refmodel::block_forward); multiply/subtract/mean over several sources read as a*prod(s), a-sum(s), (a+sum(s))/(1+|s|); overwrite = last source"]
    }
    fn run(&self, gen: &str, seed: u64, idx: u64, _tier: Tier) -> Out {
        let mut rng = Rng::stream(seed, gen, idx);
        let g = idx % 160;
        let spatial = g % 2 == 1;
        let loops = 1 + ((g / 2) % 4) as usize;
        let inskips = (g / 8) % 2 == 1;
        let outskips = (g / 16) % 2 == 1;
        let acc = ACCS[((g / 32) % 5) as usize];
        let position = (idx / 160) % 4;
        let block_sh = if spatial { Sh::Sp(rng.range(1, 2), rng.range(2, 5), rng.range(2, 5)) } else { Sh::Flat(rng.range(1, 6)) };
        let len = rng.range(1, 3);
        let acts = [Act::Tanh, Act::Sigmoid, Act::Linear, Act::Leaky, Act::Relu];
        let body = preserving_body(&mut rng, block_sh, len, &acts, spatial);
        let block = LCfg::Feedback { body, loops, inskips, outskips, acc };
        let dense = |rng: &mut Rng, n: usize| LCfg::Dense { n, act: *rng.pick(&acts), bias: rng.bool(), dropout: None };
        let (input, layers) = match (position, block_sh) {
            (0, s) => (s, vec![block.clone()]),
            (1, Sh::Flat(n)) => (Sh::Flat(rng.range(1, 5)), vec![dense(&mut rng, n), block.clone()]),
            (1, Sh::Sp(c, h, w)) => (
                Sh::Sp(rng.range(1, 2), h, w),
                vec![
                    LCfg::Conv {
                        filters: c,
                        kernel: (3, 3),
                        stride: (1, 1),
                        padding: (1, 1),
                        dilation: (1, 1),
                        act: Act::Tanh,
                        dropout: None,
                    },
                    block.clone(),
                ],
            ),
            (2, s) => (s, vec![block.clone(), dense(&mut rng, 3)]),
            (_, Sh::Flat(n)) => (Sh::Flat(3), vec![dense(&mut rng, n), block.clone(), dense(&mut rng, 2)]),
            (_, s) => (
                s,
                vec![
                    block.clone(),
                    LCfg::Conv {
                        filters: 2,
                        kernel: (2, 2),
                        stride: (1, 1),
                        padding: (1, 0),
                        dilation: (1, 1),
                        act: Act::Sigmoid,
                        dropout: None,
                    },
                ],
            ),
        };
        let cfg = NetCfg::plain(input, layers);
        let mut out = Out::new(format!("{} pos{}", cfg.describe(), position));
        out.cover("grid", format!("{} L{} in{} out{} {}", if spatial { "spatial" } else { "flat" }, loops, inskips, outskips, acc.name()));
        out.cover("positions", format!("{}/{}", if spatial { "spatial" } else { "flat" }, position));
        if let Err(e) = cfg.shapes() {
            out.inconclusive = Some(format!("generator produced an invalid block: {} ({})", e, cfg.describe()));
            return out;
        }
        let params = gen_params(&cfg, &mut rng, -1.0, 1.0).unwrap();
        let x = varied_input(&mut rng, cfg.input);
        let tag = format!("{}:{}{}", acc.name(), if inskips { "in" } else { "" }, if outskips { "out" } else { "" });
        // every fourth case: the block's layers carry dropout and the network object has been
        // through a learn() call (learning rate 0: the weights stay as installed) before it is
        // asked to predict - the block must still compute the dropout-free repeated sequence
        let used = (idx / 7) % 4 == 1;
        // every fourth case: the network is trained for a few steps (no dropout) and predicts with
        // the weights training left behind: the block must compute the repeated sequence with
        // the weights of its first repetition shared by all repetitions
        let trained_variant = (idx / 7) % 4 == 3;
        let mut params = params;
        let mut lib_cfg = cfg.clone();
        if used {
            for l in lib_cfg.layers.iter_mut() {
                if let LCfg::Feedback { body, .. } = l {
                    for b in body.iter_mut() {
                        b.set_dropout(Some(0.5));
                    }
                }
            }
        }
        let net = match build(&lib_cfg, Some(&params)) {
            Ok(n) => n,
            Err(m) => {
                out.viol(&format!("block:create-panic:{}", tag), format!("creating {} panicked: {}", cfg.describe(), short(&m, 200)), case_json(&cfg, &params, &x));
                return out;
            }
        };
        let mut net = net;
        if used {
            let xin = tensor_of(cfg.input, &x);
            let n_out = cfg.shapes().unwrap().last().unwrap().1.count();
            let tt = Tensor::single(vec![0.25; n_out]);
            net.set_objective(lib_obj(Obj::MSE), None);
            net.set_optimizer(OptCfg::Sgd { lr: 0.01, decay: None }.build());
            // validation inside learn() needs a dense output layer
            let dense_last = matches!(cfg.layers.last(), Some(LCfg::Dense { .. }));
            let trained = guard(|| {
                let val = (vec![&xin], vec![&tt]);
                net.learn(&vec![&xin, &xin], &vec![&tt, &tt], if dense_last { Some((&val.0, &val.1, 100)) } else { None }, 1, 2, None);
            });
            if let Err(m) = &trained {
                // (the backward pass of blocks with internal skips / max-pool bodies is outside this
                // property)
                out.cover("used_object_learn_panics", short(m, 60));
                out.count("used_object_variants_skipped_(learn_panicked)", 1);
                out.nontrivial = false;
                return out;
            }
            // back to the installed weights: only the object's history differs from a fresh one
            set_params(&mut net, &params);
            out.count("predictions_after_a_learn_call_with_dropout_in_the_block", 1);
        }
        if trained_variant {
            let xin = tensor_of(cfg.input, &x);
            let x2 = varied_input(&mut rng, cfg.input);
            let xin2 = tensor_of(cfg.input, &x2);
            let n_out = cfg.shapes().unwrap().last().unwrap().1.count();
            let tt = Tensor::single((0..n_out).map(|i| 0.25 + 0.5 * (i % 2) as f32).collect());
            net.set_objective(lib_obj(Obj::MSE), Some((-1.0, 1.0)));
            net.set_optimizer(OptCfg::Sgd { lr: 0.05, decay: None }.build());
            let batch = rng.range(1, 2);
            let epochs = rng.range(1, 3) as i32;
            let trained = guard(|| {
                net.learn(&vec![&xin, &xin2], &vec![&tt, &tt], None, batch, epochs, None);
            });
            let after = match trained {
                Ok(()) => guard(|| read_params(&net, &cfg, &params)),
                Err(m) => Err(m),
            };
            match after {
                Ok(p) if p.iter().all(|q| q.flat().iter().all(|v| v.is_finite() && v.abs() <= 4.0)) => {
                    if p.iter().zip(params.iter()).any(|(a, b)| a.flat() != b.flat()) {
                        out.count("predictions_with_weights_left_by_training_(weights_moved)", 1);
                    }
                    params = p;
                    out.count("predictions_with_weights_left_by_training", 1);
                }
                _ => {
                    // (the backward pass of blocks with internal skips / max-pool bodies is
                    // outside this property; diverged weights are of no use)
                    out.count("trained_variants_skipped_(learn_panicked_or_diverged)", 1);
                    out.nontrivial = false;
                    return out;
                }
            }
        }
        let r: RNet<E> = RNet::plain(&cfg, &params);
        let want = r.forward(&Val::from_f32(cfg.input, &x));
        match guard(|| net.predict(&tensor_of(cfg.input, &x))) {
            Err(m) => {
                let sig = if loops == 1 && outskips { format!("block:forward-panic:L1-outskips:{}", acc.name()) } else { format!("block:forward-panic:{}", tag) };
                out.viol(&sig, format!("predict of {} panicked: {}", cfg.describe(), short(&m, 200)), case_json(&cfg, &params, &x));
            }
            Ok(p) => {
                out.count("block_predictions_compared", 1);
                let w = want.output();
                if shape_dims(&p.shape) != sh_dims(w.sh) || !shape_consistent(&p) {
                    out.viol(&format!("block:shape:{}", tag), format!("{}: output shape {:?}, expected {}", cfg.describe(), shape_dims(&p.shape), w.sh.name()), case_json(&cfg, &params, &x));
                } else if let Some((i, got, exp, tol)) = cmp_e(&flat(&p), &w.d) {
                    out.viol(
                        &format!("block:value:{}:L{}", tag, if loops == 1 { "1" } else { ">1" }),
                        format!("{}: output[{}] = {:e}, repeated skip-combined sequence gives {:e} (bound {:e})", cfg.describe(), i, got, exp, tol),
                        case_json(&cfg, &params, &x),
                    );
                }
            }
        }
        if idx < 4 {
            out.sample = Some(case_json(&cfg, &params, &x));
        }
        out
    }
    fn finish(&self, _tier: Tier, _seed: u64, agg: &mut Agg) {
        agg.extra.push(("grid_points_covered_of_160".into(), J::Int(agg.set_size("grid") as i64)));
        agg.require(agg.set_size("grid") == 160, format!("grid coverage {} of 160", agg.set_size("grid")));
        agg.require(agg.count("predictions_after_a_learn_call_with_dropout_in_the_block") >= 2000, "too few predictions on used objects".into());
        agg.require(agg.count("predictions_with_weights_left_by_training_(weights_moved)") >= 2000, "too few predictions with trained weights".into());
        agg.require(agg.set_size("positions") == 8, "positions not all exercised".into());
    }
}
