//! C11 — a feedback block computes the repeated, optionally skip-combined, layer sequence.

use crate::cfg::*;
use crate::core::*;
use crate::gen::*;
use crate::json::J;
use crate::lib_build::*;
use crate::monitors::c02::{cmp_e, sh_dims};
use crate::refmodel::*;
use crate::rng::Rng;
use neurons::tensor::Tensor;

pub struct C11;

pub fn case_json(cfg: &NetCfg, params: &[P], x: &[f32]) -> J {
    J::obj().set("network", J::s(&cfg.describe())).set("parameters", params_json(params)).set("input", J::f32s(x))
}

/// Two-operand combinations near the end of the single-precision range: a block of one linear
/// layer whose elements do not mix (diagonal dense matrix / 1x1 single-channel kernel), two
/// repetitions, input skips and / or output skips - every combination made inside the block has
/// exactly two operands, so its result does not depend on any evaluation order, and whenever
/// the exact combination of the two operands is representable the block's output is determined.
/// Elements whose chain leaves the representable range (|v| > 0.99 f32::MAX at any point) are
/// not judged.
fn large_pairs(rng: &mut Rng) -> Out {
    let spatial = rng.bool();
    let n = if spatial { 0 } else { rng.range(1, 6) };
    let (h, w) = (rng.range(1, 4), rng.range(1, 4));
    let sh = if spatial { Sh::Sp(1, h, w) } else { Sh::Flat(n) };
    let count = sh.count();
    let inskips = rng.bool();
    let outskips = !inskips || rng.bool();
    let acc = *rng.pick(&[Acc::Mean, Acc::Mean, Acc::Add, Acc::Sub, Acc::Overwrite]);
    let unit = |rng: &mut Rng| -> f32 { (if rng.bool() { 1.0 } else { -1.0 }) * *rng.pick(&[1.0f32, 0.5, 0.25, 0.75, 0.875]) };
    // per-element factor of the layer
    let (layer, param, factors): (LCfg, P, Vec<f32>) = if spatial {
        let k = unit(rng);
        (LCfg::Conv { filters: 1, kernel: (1, 1), stride: (1, 1), padding: (0, 0), dilation: (1, 1), act: Act::Linear, dropout: None }, P::Kern(vec![vec![vec![vec![k]]]]), vec![k; count])
    } else {
        let d: Vec<f32> = (0..n).map(|_| unit(rng)).collect();
        let wm: Vec<Vec<f32>> = (0..n).map(|i| (0..n).map(|j| if i == j { d[i] } else { 0.0 }).collect()).collect();
        (LCfg::Dense { n, act: Act::Linear, bias: false, dropout: None }, P::Dense { w: wm, b: None }, d)
    };
    let cfg = NetCfg::plain(sh, vec![LCfg::Feedback { body: vec![layer], loops: 2, inskips, outskips, acc }]);
    let params = vec![P::Block(vec![param])];
    let x: Vec<f32> = (0..count)
        .map(|_| {
            let mag = 10f64.powf(rng.f64_in(35.5, 38.6)).min(3.3e38) as f32;
            if rng.bool() {
                mag
            } else {
                -mag
            }
        })
        .collect();
    let mut out = Out::new(format!("large pairs {} {}", cfg.describe(), x.len()));
    out.cover("large_pair_grid", format!("{} in{} out{} {}", if spatial { "spatial" } else { "flat" }, inskips, outskips, acc.name()));
    let limit = 0.99 * f32::MAX as f64;
    let comb = |a: f64, b: f64| -> Option<f64> {
        // combine(a, [b]) of the reference semantics, None when an exact intermediate leaves the range
        let (sum, r) = match acc {
            Acc::Add => (a + b, a + b),
            Acc::Sub => (a - b, a - b),
            Acc::Mul => (a * b, a * b),
            Acc::Mean => (a + b, (a + b) / 2.0),
            Acc::Overwrite => (b, b),
        };
        if sum.abs() > limit {
            None
        } else {
            Some(r)
        }
    };
    let want: Vec<Option<f64>> = (0..count)
        .map(|i| {
            let f = factors[i] as f64;
            let xi = x[i] as f64;
            let o1 = f * xi;
            let in2 = if inskips { comb(o1, xi)? } else { o1 };
            let o2 = f * in2;
            let res = if outskips { comb(o2, o1)? } else { o2 };
            if [o1, in2, o2, res].iter().any(|v| v.abs() > limit) {
                None
            } else {
                Some(res)
            }
        })
        .collect();
    let mut judged = want.iter().filter(|w| w.is_some()).count();
    if !spatial && judged < count {
        // an overflowed element reaches the others through the zeros of the matrix (0 x inf)
        judged = 0;
    }
    if judged == 0 {
        out.nontrivial = false;
        out.count("large_pair_cases_entirely_outside_the_range", 1);
        return out;
    }
    let net = match build(&cfg, Some(&params)) {
        Ok(n) => n,
        Err(m) => {
            out.viol("block:create-panic:large", format!("creating {} panicked: {}", cfg.describe(), short(&m, 200)), case_json(&cfg, &params, &x));
            return out;
        }
    };
    match guard(|| net.predict(&tensor_of(cfg.input, &x))) {
        Err(m) => out.viol("block:forward-panic:large", format!("predict of {} panicked: {}", cfg.describe(), short(&m, 200)), case_json(&cfg, &params, &x)),
        Ok(p) => {
            let got = flat(&p);
            out.count("large_pair_elements_judged", judged as u64);
            out.count("large_pair_elements_not_judged_(chain_leaves_the_range)", (count - judged) as u64);
            if got.len() != count {
                out.viol("block:shape:large", format!("{}: {} output elements, expected {}", cfg.describe(), got.len(), count), case_json(&cfg, &params, &x));
            } else {
                for i in 0..count {
                    if let Some(wv) = want[i] {
                        let tol = 1e-5 * (x[i].abs() as f64) + 1e-30;
                        if !((got[i] as f64 - wv).abs() <= tol) {
                            out.viol(
                                &format!("block:value:large:{}:{}{}", acc.name(), if inskips { "in" } else { "" }, if outskips { "out" } else { "" }),
                                format!("{}: input {:e}, layer factor {}: output[{}] = {:e}, the two-operand {} combinations give {:e}", cfg.describe(), x[i], factors[i], i, got[i], acc.name(), wv),
                                case_json(&cfg, &params, &x),
                            );
                            break;
                        }
                    }
                }
            }
        }
    }
    out
}

impl Monitor for C11 {
    fn id(&self) -> &'static str {
        "C11"
    }
    fn gens(&self, tier: Tier) -> Vec<(&'static str, u64)> {
        vec![("blocks", tier.pick(160 * 2000, 160 * 40_000)), ("large_pairs", tier.pick(40_000, 800_000))]
    }
    fn rule(&self) -> &'static str {
        "case i -> (flat | spatial block) x loops L in 1..4 x input-skips x output-skips x accumulation in {add, subtract, multiply, mean, overwrite} (the 160-point grid is walked completely, 40+ times), body of 1..3 random shape-preserving layers (dense; 'same' convolutions incl. dilation 2, size-preserving deconvolutions, deconvolution+max-pool pairs), the block placed first / after a layer of matching representation / before a dense layer (flattened output) / last; repetition-free weights in [-1,1]; Network::predict is compared with the reference block (L-fold application with shared weights, repetition r>1 fed combine(previous output, block input), output = combine(last, earlier outputs)) within the running f32 error bound. Every fourth case puts dropout 0.5 on the block's layers and sends the network object through a learn() call with two epochs, after which the installed weights are put back, before predicting: the block must still compute the dropout-free sequence. Every fourth case trains the network for 1..3 epochs on two samples (SGD 0.05, batch 1..2) and predicts with the weights training left behind: the reference block then uses the weights read from the block's first repetition for all repetitions. Every eighth case calls Network::set_activation with the block's index: a refusal must leave the block as it was (the usual comparison follows); if the call is accepted the output must be the repeated application of ONE layer sequence - the unchanged body, or the body with the new activation on its last layer or on all layers, in every repetition alike. large_pairs: blocks of ONE linear layer whose elements do not mix (diagonal matrix / 1x1 single-channel kernel, factors +-{0.25..1}), two repetitions, input and / or output skips, accumulation mean / add / subtract / overwrite, inputs of magnitude 3e35..3.3e38 with random signs: every combination inside the block has exactly two operands, so no evaluation order is involved; elements for which the exact sum / difference of the two operands and every value of the chain stay below 0.99 f32::MAX must come out as the combination (1e-5 relative); other elements are not judged. Distinct = distinct configuration descriptors."
    }
    fn assumptions(&self) -> Vec<&'static str> {
        vec!["reference block semantics written from the property statement (refmodel::block_forward); multiply/subtract/mean over several sources read as a*prod(s), a-sum(s), (a+sum(s))/(1+|s|); overwrite = last source"]
    }
    fn run(&self, gen: &str, seed: u64, idx: u64, _tier: Tier) -> Out {
        let mut rng = Rng::stream(seed, gen, idx);
        if gen == "large_pairs" {
            return large_pairs(&mut rng);
        }
        let g = idx % 160;
        let spatial = g % 2 == 1;
        let loops = 1 + ((g / 2) % 4) as usize;
        let inskips = (g / 8) % 2 == 1;
        let outskips = (g / 16) % 2 == 1;
        let acc = ACCS[((g / 32) % 5) as usize];
        let position = (idx / 160) % 4;
        let block_sh = if spatial { Sh::Sp(rng.range(1, 2), rng.range(2, 5), rng.range(2, 5)) } else { Sh::Flat(rng.range(1, 6)) };
        let len = rng.range(1, 3);
        let acts = [Act::Tanh, Act::Sigmoid, Act::Linear, Act::Leaky, Act::Relu];
        let body = preserving_body(&mut rng, block_sh, len, &acts, spatial);
        let block = LCfg::Feedback { body, loops, inskips, outskips, acc };
        let dense = |rng: &mut Rng, n: usize| LCfg::Dense { n, act: *rng.pick(&acts), bias: rng.bool(), dropout: None };
        let (input, layers) = match (position, block_sh) {
            (0, s) => (s, vec![block.clone()]),
            (1, Sh::Flat(n)) => (Sh::Flat(rng.range(1, 5)), vec![dense(&mut rng, n), block.clone()]),
            (1, Sh::Sp(c, h, w)) => (
                Sh::Sp(rng.range(1, 2), h, w),
                vec![
                    LCfg::Conv {
                        filters: c,
                        kernel: (3, 3),
                        stride: (1, 1),
                        padding: (1, 1),
                        dilation: (1, 1),
                        act: Act::Tanh,
                        dropout: None,
                    },
                    block.clone(),
                ],
            ),
            (2, s) => (s, vec![block.clone(), dense(&mut rng, 3)]),
            (_, Sh::Flat(n)) => (Sh::Flat(3), vec![dense(&mut rng, n), block.clone(), dense(&mut rng, 2)]),
            (_, s) => (
                s,
                vec![
                    block.clone(),
                    LCfg::Conv {
                        filters: 2,
                        kernel: (2, 2),
                        stride: (1, 1),
                        padding: (1, 0),
                        dilation: (1, 1),
                        act: Act::Sigmoid,
                        dropout: None,
                    },
                ],
            ),
        };
        let cfg = NetCfg::plain(input, layers);
        let mut out = Out::new(format!("{} pos{}", cfg.describe(), position));
        out.cover("grid", format!("{} L{} in{} out{} {}", if spatial { "spatial" } else { "flat" }, loops, inskips, outskips, acc.name()));
        out.cover("positions", format!("{}/{}", if spatial { "spatial" } else { "flat" }, position));
        if let Err(e) = cfg.shapes() {
            out.inconclusive = Some(format!("generator produced an invalid block: {} ({})", e, cfg.describe()));
            return out;
        }
        let params = gen_params(&cfg, &mut rng, -1.0, 1.0).unwrap();
        let x = varied_input(&mut rng, cfg.input);
        let tag = format!("{}:{}{}", acc.name(), if inskips { "in" } else { "" }, if outskips { "out" } else { "" });
        // every fourth case: the block's layers carry dropout and the network object has been
        // through a learn() call (learning rate 0: the weights stay as installed) before it is
        // asked to predict - the block must still compute the dropout-free repeated sequence
        let used = (idx / 7) % 4 == 1;
        // every fourth case: the network is trained for a few steps (no dropout) and predicts with
        // the weights training left behind: the block must compute the repeated sequence with
        // the weights of its first repetition shared by all repetitions
        let trained_variant = (idx / 7) % 4 == 3;
        let mut params = params;
        let mut lib_cfg = cfg.clone();
        if used {
            for l in lib_cfg.layers.iter_mut() {
                if let LCfg::Feedback { body, .. } = l {
                    for b in body.iter_mut() {
                        b.set_dropout(Some(0.5));
                    }
                }
            }
        }
        let net = match build(&lib_cfg, Some(&params)) {
            Ok(n) => n,
            Err(m) => {
                out.viol(&format!("block:create-panic:{}", tag), format!("creating {} panicked: {}", cfg.describe(), short(&m, 200)), case_json(&cfg, &params, &x));
                return out;
            }
        };
        let mut net = net;
        if used {
            let xin = tensor_of(cfg.input, &x);
            let n_out = cfg.shapes().unwrap().last().unwrap().1.count();
            let tt = Tensor::single(vec![0.25; n_out]);
            net.set_objective(lib_obj(Obj::MSE), None);
            net.set_optimizer(OptCfg::Sgd { lr: 0.01, decay: None }.build());
            // validation inside learn() needs a dense output layer
            let dense_last = matches!(cfg.layers.last(), Some(LCfg::Dense { .. }));
            let trained = guard(|| {
                let val = (vec![&xin], vec![&tt]);
                net.learn(&vec![&xin, &xin], &vec![&tt, &tt], if dense_last { Some((&val.0, &val.1, 100)) } else { None }, 1, 2, None);
            });
            if let Err(m) = &trained {
                // (the backward pass of blocks with internal skips / max-pool bodies is outside this
                // property)
                out.cover("used_object_learn_panics", short(m, 60));
                out.count("used_object_variants_skipped_(learn_panicked)", 1);
                out.nontrivial = false;
                return out;
            }
            // back to the installed weights: only the object's history differs from a fresh one
            set_params(&mut net, &params);
            out.count("predictions_after_a_learn_call_with_dropout_in_the_block", 1);
        }
        if trained_variant {
            let xin = tensor_of(cfg.input, &x);
            let x2 = varied_input(&mut rng, cfg.input);
            let xin2 = tensor_of(cfg.input, &x2);
            let n_out = cfg.shapes().unwrap().last().unwrap().1.count();
            let tt = Tensor::single((0..n_out).map(|i| 0.25 + 0.5 * (i % 2) as f32).collect());
            net.set_objective(lib_obj(Obj::MSE), Some((-1.0, 1.0)));
            net.set_optimizer(OptCfg::Sgd { lr: 0.05, decay: None }.build());
            let batch = rng.range(1, 2);
            let epochs = rng.range(1, 3) as i32;
            let trained = guard(|| {
                net.learn(&vec![&xin, &xin2], &vec![&tt, &tt], None, batch, epochs, None);
            });
            let after = match trained {
                Ok(()) => guard(|| read_params(&net, &cfg, &params)),
                Err(m) => Err(m),
            };
            match after {
                Ok(p) if p.iter().all(|q| q.flat().iter().all(|v| v.is_finite() && v.abs() <= 4.0)) => {
                    if p.iter().zip(params.iter()).any(|(a, b)| a.flat() != b.flat()) {
                        out.count("predictions_with_weights_left_by_training_(weights_moved)", 1);
                    }
                    params = p;
                    out.count("predictions_with_weights_left_by_training", 1);
                }
                _ => {
                    // (the backward pass of blocks with internal skips / max-pool bodies is
                    // outside this property; diverged weights are of no use)
                    out.count("trained_variants_skipped_(learn_panicked_or_diverged)", 1);
                    out.nontrivial = false;
                    return out;
                }
            }
        }
        // every eighth case: Network::set_activation is called with the block's index. The call
        // may be refused (then nothing may have changed); if it is accepted the block must still
        // be the L-fold application of ONE layer sequence: the body as it was, the body with the
        // new activation on its last layer, or on all of its layers - in every repetition alike
        let mut candidates: Vec<(&'static str, NetCfg)> = Vec::new();
        if (idx / 7) % 4 == 2 && (idx / 28) % 2 == 0 {
            let bpos = cfg.layers.iter().position(|l| matches!(l, LCfg::Feedback { .. })).unwrap();
            let a = *rng.pick(&acts);
            let before = a;
            match guard(std::panic::AssertUnwindSafe(|| net.set_activation(bpos, lib_act(before)))) {
                Err(_) => out.count("set_activation_on_a_block_refused", 1),
                Ok(()) => {
                    out.count("set_activation_on_a_block_accepted", 1);
                    let mut last = cfg.clone();
                    let mut all = cfg.clone();
                    if let LCfg::Feedback { body, .. } = &mut last.layers[bpos] {
                        // the last layer with an activation (a max-pool has none)
                        if let Some(l) = body.iter_mut().rev().find(|l| l.act().is_some()) {
                            l.set_act(a);
                        }
                    }
                    if let LCfg::Feedback { body, .. } = &mut all.layers[bpos] {
                        for l in body.iter_mut() {
                            l.set_act(a);
                        }
                    }
                    candidates.push(("the new activation on the body's last layer in every repetition", last));
                    candidates.push(("the new activation on every body layer in every repetition", all));
                }
            }
        }
        let r: RNet<E> = RNet::plain(&cfg, &params);
        let want = r.forward(&Val::from_f32(cfg.input, &x));
        if !candidates.is_empty() {
            match guard(|| net.predict(&tensor_of(cfg.input, &x))) {
                Err(m) => out.viol(&format!("block:forward-panic:after-set-activation:{}", tag), format!("predict of {} after set_activation on the block panicked: {}", cfg.describe(), short(&m, 200)), case_json(&cfg, &params, &x)),
                Ok(p) => {
                    out.count("block_predictions_compared_after_set_activation", 1);
                    let mut fits = cmp_e(&flat(&p), &want.output().d).is_none();
                    for (_, c) in candidates.iter() {
                        let rc: RNet<E> = RNet::plain(c, &params);
                        if cmp_e(&flat(&p), &rc.forward(&Val::from_f32(c.input, &x)).output().d).is_none() {
                            fits = true;
                        }
                    }
                    if !fits {
                        out.viol(
                            &format!("block:value:after-set-activation:L{}", if loops == 1 { "1" } else { ">1" }),
                            format!("{}: after set_activation on the block the output is the repeated application of no single layer sequence (neither the unchanged body, nor the new activation on the last layer or on all layers of every repetition)", cfg.describe()),
                            case_json(&cfg, &params, &x),
                        );
                    }
                }
            }
            return out;
        }
        match guard(|| net.predict(&tensor_of(cfg.input, &x))) {
            Err(m) => {
                let sig = if loops == 1 && outskips { format!("block:forward-panic:L1-outskips:{}", acc.name()) } else { format!("block:forward-panic:{}", tag) };
                out.viol(&sig, format!("predict of {} panicked: {}", cfg.describe(), short(&m, 200)), case_json(&cfg, &params, &x));
            }
            Ok(p) => {
                out.count("block_predictions_compared", 1);
                let w = want.output();
                if shape_dims(&p.shape) != sh_dims(w.sh) || !shape_consistent(&p) {
                    out.viol(&format!("block:shape:{}", tag), format!("{}: output shape {:?}, expected {}", cfg.describe(), shape_dims(&p.shape), w.sh.name()), case_json(&cfg, &params, &x));
                } else if let Some((i, got, exp, tol)) = cmp_e(&flat(&p), &w.d) {
                    out.viol(
                        &format!("block:value:{}:L{}", tag, if loops == 1 { "1" } else { ">1" }),
                        format!("{}: output[{}] = {:e}, repeated skip-combined sequence gives {:e} (bound {:e})", cfg.describe(), i, got, exp, tol),
                        case_json(&cfg, &params, &x),
                    );
                }
            }
        }
        if idx < 4 {
            out.sample = Some(case_json(&cfg, &params, &x));
        }
        out
    }
    fn finish(&self, _tier: Tier, _seed: u64, agg: &mut Agg) {
        agg.extra.push(("grid_points_covered_of_160".into(), J::Int(agg.set_size("grid") as i64)));
        agg.require(agg.set_size("grid") == 160, format!("grid coverage {} of 160", agg.set_size("grid")));
        agg.require(agg.count("predictions_after_a_learn_call_with_dropout_in_the_block") >= 2000, "too few predictions on used objects".into());
        agg.require(agg.count("predictions_with_weights_left_by_training_(weights_moved)") >= 2000, "too few predictions with trained weights".into());
        agg.require(agg.set_size("positions") == 8, "positions not all exercised".into());
    }
}
