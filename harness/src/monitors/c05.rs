//! C05 — results are independent of thread count and scheduling.

use crate::cfg::*;
use crate::core::*;
use crate::json::J;
use crate::lib_build::*;
use crate::rng::{fnv, Rng};
use crate::train::*;
use neurons::network::Network;
use neurons::tensor::Tensor;
use neurons::verif::Event;
use std::sync::atomic::{AtomicBool, Ordering};
use std::sync::Arc;

pub struct C05;

const POOLS: [usize; 7] = [2, 3, 4, 7, 16, 33, 64];

/// A network with every layer kind, a skip connection across the block and a loop connection.
fn everything_net(rng: &mut Rng) -> NetCfg {
    // 1..4 channels: the deconvolution behind the block (2 filters) sees fewer, as many and
    // more input channels than it has filters
    let c = rng.range(1, 4);
    let (h, w) = (rng.range(3, 4), rng.range(3, 4));
    let act = |rng: &mut Rng| *rng.pick(&[Act::Tanh, Act::Sigmoid, Act::Leaky, Act::Relu, Act::Tanh, Act::Softmax]);
    let drop = |rng: &mut Rng| if rng.chance(0.4) { Some(0.5f32) } else { None };
    let n = rng.range(3, 6);
    let layers = vec![
        LCfg::Conv { filters: c, kernel: (3, 3), stride: (1, 1), padding: (1, 1), dilation: (1, 1), act: act(rng), dropout: drop(rng) },
        LCfg::Feedback {
            body: vec![LCfg::Conv { filters: c, kernel: (1, 1), stride: (1, 1), padding: (0, 0), dilation: (1, 1), act: act(rng), dropout: None }, LCfg::Deconv { filters: c, kernel: (3, 3), stride: (1, 1), padding: (1, 1), act: act(rng), dropout: None }],
            // 2..4 repetitions, with and without internal skips (with input skips and three or
            // more repetitions the block's input collects the gradients of several repetitions)
            loops: rng.range(2, 4),
            inskips: rng.bool(),
            outskips: rng.bool(),
            acc: Acc::Mean,
        },
        LCfg::Deconv { filters: 2, kernel: (2, 2), stride: (1, 1), padding: (0, 0), act: act(rng), dropout: drop(rng) },
        LCfg::Pool { kernel: (2, 2), stride: (1, 1) },
        LCfg::Dense { n, act: Act::Tanh, bias: true, dropout: drop(rng) },
        LCfg::Dense { n, act: act(rng), bias: rng.bool(), dropout: None },
        LCfg::Dense { n, act: act(rng), bias: rng.bool(), dropout: None },
        LCfg::Dense { n, act: act(rng), bias: rng.bool(), dropout: None },
        LCfg::Dense { n: rng.range(1, 3), act: *rng.pick(&[Act::Linear, Act::Sigmoid]), bias: true, dropout: None },
    ];
    let mut cfg = NetCfg::plain(Sh::Sp(c, h, w), layers);
    // one connection across the block and two connections that share their source (layer 6)
    cfg.skips = vec![(0, 2), (6, 7), (6, 8)];
    cfg.skipacc = Acc::Add;
    cfg.loops = vec![(5, 5, rng.range(1, 2), rng.bool())];
    cfg.loopacc = *rng.pick(&[Acc::Mean, Acc::Add]);
    cfg
}

/// A stack of convolutions / deconvolutions with 1..5 channels / filters each, with kernels 1..3
/// and paddings 0..2 chosen per layer: consecutive layers often work on scratch tensors of the
/// same shape with different margins (what a per-thread reused buffer would get wrong).
pub fn stack_net(rng: &mut Rng) -> NetCfg {
    stack_net_with(rng, false)
}

/// `softmax`: soft-max and linear are among the activations (C05 only: the value oracle of C02
/// cannot judge max-pool windows over the tiny, nearly tied values a soft-max layer leaves).
pub fn stack_net_with(rng: &mut Rng, softmax: bool) -> NetCfg {
    // the channel count changes from layer to layer (1..5): layers with more input channels than
    // filters, as many, and fewer
    let c = rng.range(1, 5);
    let (mut h, mut w) = (rng.range(3, 5), rng.range(3, 5));
    let input = Sh::Sp(c, h, w);
    // (soft-max normalises over the whole tensor of a layer: every filter's map depends on all
    // the others)
    let act = |rng: &mut Rng| if softmax { *rng.pick(&[Act::Tanh, Act::Sigmoid, Act::Leaky, Act::Relu, Act::Softmax, Act::Linear]) } else { *rng.pick(&[Act::Tanh, Act::Sigmoid, Act::Leaky, Act::Relu]) };
    let mut layers = Vec::new();
    let depth = rng.range(3, 6);
    // in most stacks a wide margin is followed by a narrower one on a padded tensor of the same
    // shape (k3 p2 then k3 p1: both padded to (h+4) x (w+4))
    let motif_at = if rng.chance(0.75) { rng.range(0, 2) } else { usize::MAX };
    let mut forced: Vec<(bool, usize, usize)> = Vec::new();
    while layers.len() < depth {
        if layers.len() == motif_at && h + 2 <= 9 && w + 2 <= 9 {
            forced = vec![(true, 3, 1), (true, 3, 2)];
        }
        let (conv, k, p) = match forced.pop() {
            Some(f) => f,
            None => (rng.chance(0.7), *rng.pick(&[1usize, 3, 3]), rng.range(0, 2)),
        };
        let (nh, nw) = if conv { (h as i64 + 2 * p as i64 - k as i64 + 1, w as i64 + 2 * p as i64 - k as i64 + 1) } else { (h as i64 - 1 + k as i64 - 2 * p as i64, w as i64 - 1 + k as i64 - 2 * p as i64) };
        if nh < 2 || nw < 2 || nh > 9 || nw > 9 {
            continue;
        }
        let dropout = if rng.chance(0.25) { Some(0.5f32) } else { None };
        let c = if rng.chance(0.3) { c } else { rng.range(1, 5) };
        layers.push(if conv { LCfg::Conv { filters: c, kernel: (k, k), stride: (1, 1), padding: (p, p), dilation: (1, 1), act: act(rng), dropout } } else { LCfg::Deconv { filters: c, kernel: (k, k), stride: (1, 1), padding: (p, p), act: act(rng), dropout } });
        h = nh as usize;
        w = nw as usize;
    }
    layers.push(LCfg::Pool { kernel: (2, 2), stride: (1, 1) });
    layers.push(LCfg::Dense { n: rng.range(3, 5), act: Act::Tanh, bias: true, dropout: None });
    layers.push(LCfg::Dense { n: rng.range(1, 3), act: *rng.pick(&[Act::Linear, Act::Sigmoid]), bias: true, dropout: None });
    NetCfg::plain(input, layers)
}

#[derive(PartialEq)]
struct Outcome {
    bits: Vec<u32>,
}

struct Run {
    outcome: Result<Outcome, String>,
    /// per training group: (assignment signature, start-order signature)
    schedules: Vec<(u64, u64)>,
    forwards: usize,
}

fn signature(events: &[Event], train_tags: &[u64]) -> Vec<(u64, u64)> {
    let mut out = Vec::new();
    let mut group: Vec<(usize, u64)> = Vec::new();
    let flush = |group: &mut Vec<(usize, u64)>, out: &mut Vec<(u64, u64)>| {
        if group.len() > 1 {
            // relabel threads by first appearance in sample order
            let mut by_sample = group.clone();
            by_sample.sort();
            let mut labels: Vec<u64> = Vec::new();
            let assign: Vec<usize> = by_sample
                .iter()
                .map(|(_, t)| match labels.iter().position(|l| l == t) {
                    Some(p) => p,
                    None => {
                        labels.push(*t);
                        labels.len() - 1
                    }
                })
                .collect();
            let order: Vec<usize> = group.iter().map(|(s, _)| *s).collect();
            out.push((fnv(&format!("{:?}", assign)), fnv(&format!("{:?}", order))));
        }
        group.clear();
    };
    for e in events {
        match e {
            Event::Forward { tag, thread, .. } => {
                if let Some(i) = train_tags.iter().position(|t| t == tag) {
                    group.push((i, *thread));
                }
            }
            Event::Update { .. } => flush(&mut group, &mut out),
        }
    }
    out
}


/// The Miri leg as one case: runs /verif/miri under `-Zmiri-many-seeds`.
fn miri_leg(tier: Tier, seed: u64) -> Out {
    let mut out = Out::new(format!("miri many-seeds variant {}", seed % 6));
    let seeds = tier.pick(4, 32);
    let t0 = std::time::Instant::now();
    let dir = std::env::var("VERIF_DIR").unwrap_or_else(|_| "/verif".into());
    let _ = std::fs::copy("/repo/Cargo.lock", format!("{}/miri/Cargo.lock", dir));
    let variant = (seed % 6).to_string();
    let res = std::process::Command::new("cargo")
        .args(["+nightly", "miri", "run", "--offline", "--target-dir", &format!("{}/target/miri", dir), "--", &variant])
        .current_dir(format!("{}/miri", dir))
        .env("CARGO_NET_OFFLINE", "true")
        .env("MIRIFLAGS", format!("-Zmiri-disable-isolation -Zmiri-tree-borrows -Zmiri-ignore-leaks -Zmiri-deterministic-floats -Zmiri-many-seeds=0..{}", seeds))
        .output();
    match res {
        Err(e) => out.inconclusive = Some(format!("cannot start cargo miri: {}", e)),
        Ok(o) => {
            let stdout = String::from_utf8_lossy(&o.stdout).to_string();
            let stderr = String::from_utf8_lossy(&o.stderr).to_string();
            let _ = std::fs::write(format!("{}/logs/C05.miri.log", dir), format!("{}\n--- stderr ---\n{}", stdout, stderr));
            let results: Vec<&str> = stdout.lines().filter(|l| l.starts_with("RESULT")).collect();
            let distinct: std::collections::BTreeSet<&str> = results.iter().cloned().collect();
            out.evals = results.len() as u64;
            out.distinct = Some(results.len() as u64);
            out.count("miri_scheduler_seeds_executed", results.len() as u64);
            out.count("miri_distinct_results", distinct.len() as u64);
            out.count("miri_wall_seconds", t0.elapsed().as_secs());
            if stderr.contains("Undefined Behavior") || stderr.contains("Data race detected") {
                let at = stderr.lines().find(|l| l.contains("Undefined Behavior") || l.contains("Data race")).unwrap_or("").to_string();
                out.viol("determinism:miri-undefined-behaviour", format!("Miri reports: {} (see logs/C05.miri.log)", short(&at, 300)), J::Null);
            } else if distinct.len() > 1 {
                out.viol("determinism:miri-seeds-differ", format!("{} Miri scheduler seeds produced {} different results (see logs/C05.miri.log)", results.len(), distinct.len()), J::Arr(distinct.iter().map(|l| J::s(&short(l, 200))).collect()));
            } else if !o.status.success() || results.len() != seeds as usize {
                out.inconclusive = Some(format!("cargo miri exited with {:?} and printed {} of {} result lines (see logs/C05.miri.log)", o.status.code(), results.len(), seeds));
            }
            out.sample = Some(J::obj().set("miri_variant", J::s(&variant)).set("seeds", J::Int(seeds as i64)).set("result", J::s(&short(results.first().unwrap_or(&""), 120))));
        }
    }
    out
}

impl Monitor for C05 {
    fn id(&self) -> &'static str {
        "C05"
    }
    fn workers(&self) -> usize {
        4
    }
    fn gens(&self, tier: Tier) -> Vec<(&'static str, u64)> {
        // the second build profile (NV_PLAIN: no overflow checks, no debug assertions) repeats the
        // pool sweep only; Miri interprets the library itself and has no such profile
        if std::env::var("NV_PLAIN").is_ok() {
            return vec![("schedules", tier.pick(12, 600)), ("wide", tier.pick(8, 80)), ("stacks", tier.pick(4, 200)), ("images", tier.pick(6, 200))];
        }
        vec![("miri", 1), ("schedules", tier.pick(24, 600)), ("wide", tier.pick(8, 80)), ("stacks", tier.pick(8, 200)), ("images", tier.pick(16, 200))]
    }
    fn rule(&self) -> &'static str {
        "case = a network with every layer kind and 1..4 channels (convolution, feedback block of convolution+deconvolution with 2..4 repetitions, with and without input / output skips, deconvolution, max-pool, five dense layers, a skip connection across the block, two skip connections sharing their source, a loop connection over a dense layer, dropout on random layers), 24..64 training samples, batch 1..32, 2 epochs (in every second case with a progress line printed per epoch) with 150..300 or 500..1300 validation inputs (2..21 chunks of 64, not a multiple of 64), followed by validate() and predict_batch() on the same inputs. The identical call is executed in a 1-thread pool without delays (reference) and in dedicated rayon pools of 2, 3, 4, 7, 16, 33 and 64 threads with the delay injector armed (random 0..300 us stalls at the entry of every per-sample forward pass, two delay seeds per pool size), plus once in an 8-thread pool while 16 busy threads starve the machine, plus a repetition of the reference, plus two runs (1 and 4 threads) in which the evaluation tensors are stored elsewhere and in another order in memory while the reference vectors list them in the same logical order; plus the same call with a target vector 1..3 entries longer than the input vector in pools of 1, 2, 3, 4 and 7 threads, compared among themselves (not judged if the library refuses such a call). Every output - per-epoch train/validation loss and accuracy, all final weights, the validate() result, every predict_batch() output in order - must be bit-identical to the reference. Evidence that schedules differed: per training group the sample->worker assignment and the order in which the per-sample tasks started, taken from the event log; distinct = distinct (case, assignment/start-order) schedules observed. stacks: the same protocol on stacks of 3..6 convolutions / deconvolutions with 1..5 input channels and 1..5 filters each (more channels than filters, as many, fewer), kernels 1 or 3, paddings 0..2 and any activation incl. soft-max per layer (consecutive layers work on intermediate tensors of equal shape with different margins), max-pool, two dense layers. wide: the same protocol on networks whose dense layers have 4096..8200 inputs or outputs, and (every second case) on networks that begin with a convolution or deconvolution with a wide kernel (1x8, 1x9, 3x8, 3x11, 2x16, 1x17, 1x33; rows of 11..64 elements) followed by a 1x8 convolution with stride 2: sums over 8..100 products per output element. images: stacks that END in a convolution with 5..16 filters (image-shaped predictions and targets, so the objective sums over channels), trained without validation data (validate() needs a dense output layer) and evaluated by predict_batch(). Miri leg: /verif/miri under -Zmiri-many-seeds (4 seeds quick, 32 thorough): every seed must print the same bit patterns and Miri must report no undefined behaviour or data race."
    }
    fn assumptions(&self) -> Vec<&'static str> {
        vec![
            "work-stealing schedules are sampled, not enumerated: a dependence that needs a schedule never produced stays unseen; the evidence states how many distinct schedules were observed",
            "Miri runs with -Zmiri-tree-borrows -Zmiri-ignore-leaks (rayon/crossbeam internals) and -Zmiri-deterministic-floats (otherwise Miri itself randomises the last bits of tanh/exp per seed)",
        ]
    }
    fn run(&self, gen: &str, seed: u64, idx: u64, tier: Tier) -> Out {
        if gen == "miri" {
            return miri_leg(tier, seed);
        }
        let mut rng = Rng::stream(seed, gen, idx);
        let wide = gen == "wide";
        let cfg = if wide {
            // dense layers with several thousand inputs / outputs (sizes beyond what small tests use)
            let big = *rng.pick(&[4096usize, 5000, 8200]);
            if idx % 4 >= 2 {
                // long rows and wide kernels (1x9 ... 3x33, the shape of spectra and signals):
                // sums over 8..100 products per output element, rows of 12..64 elements
                let (kh, kw) = *rng.pick(&[(1usize, 9usize), (1, 8), (3, 8), (2, 16), (1, 33), (3, 11), (1, 17)]);
                let h = rng.range(kh, kh + 3);
                let w = rng.range(kw + 3, (kw + 30).min(64));
                let c = rng.range(1, 3);
                let pw = rng.range(0, 4);
                let first = if idx % 4 == 2 {
                    LCfg::Conv { filters: rng.range(1, 3), kernel: (kh, kw), stride: (1, 1), padding: (0, pw), dilation: (1, 1), act: Act::Tanh, dropout: None }
                } else {
                    LCfg::Deconv { filters: rng.range(1, 3), kernel: (kh, kw), stride: (1, 1), padding: (0, pw), act: Act::Tanh, dropout: None }
                };
                NetCfg::plain(Sh::Sp(c, h, w), vec![first, LCfg::Conv { filters: 2, kernel: (1, 8), stride: (1, 2), padding: (0, 3), dilation: (1, 1), act: Act::Sigmoid, dropout: None }, LCfg::Dense { n: 4, act: Act::Tanh, bias: true, dropout: None }, LCfg::Dense { n: 2, act: Act::Linear, bias: true, dropout: None }])
            } else if idx % 2 == 0 {
                NetCfg::plain(Sh::Flat(big), vec![LCfg::Dense { n: 5, act: Act::Tanh, bias: true, dropout: None }, LCfg::Dense { n: 2, act: Act::Linear, bias: true, dropout: None }])
            } else {
                NetCfg::plain(Sh::Flat(6), vec![LCfg::Dense { n: big, act: Act::Tanh, bias: true, dropout: None }, LCfg::Dense { n: 2, act: Act::Linear, bias: true, dropout: None }])
            }
        } else if gen == "stacks" {
            let c = stack_net_with(&mut rng, true);
            if c.shapes().is_err() {
                let mut out = Out::new("invalid stack".into());
                out.nontrivial = false;
                return out;
            }
            c
        } else if gen == "images" {
            // a stack that ENDS in a spatial layer with 5..12 filters: predictions, targets and
            // the objective's per-sample sums are image-shaped
            let mut c = stack_net_with(&mut rng, true);
            // drop the pool / dense tail of the stack
            while matches!(c.layers.last(), Some(LCfg::Dense { .. }) | Some(LCfg::Pool { .. })) {
                c.layers.pop();
            }
            let f = *rng.pick(&[5usize, 8, 12, 16]);
            c.layers.push(LCfg::Conv { filters: f, kernel: (3, 3), stride: (1, 1), padding: (1, 1), dilation: (1, 1), act: *rng.pick(&[Act::Tanh, Act::Sigmoid, Act::Linear]), dropout: None });
            if c.shapes().is_err() {
                let mut out = Out::new("invalid image stack".into());
                out.nontrivial = false;
                return out;
            }
            c
        } else {
            everything_net(&mut rng)
        };
        let image_out = gen == "images";
        let out_shape = cfg.shapes().unwrap().last().unwrap().1;
        let params = if wide && idx % 4 < 2 {
            // plain random values (repetition-free generation is quadratic in the tensor size)
            let mut ps = Vec::new();
            let mut cur = cfg.input;
            for l in cfg.layers.iter() {
                if let LCfg::Dense { n, .. } = l {
                    let m = cur.count();
                    ps.push(P::Dense { w: (0..*n).map(|_| (0..m).map(|_| rng.f32_in(-0.05, 0.05)).collect()).collect(), b: Some((0..*n).map(|_| rng.f32_in(-0.1, 0.1)).collect()) });
                    cur = Sh::Flat(*n);
                }
            }
            ps
        } else {
            gen_params(&cfg, &mut rng, -0.7, 0.7).unwrap()
        };
        let outputs = match cfg.layers.last().unwrap() {
            LCfg::Dense { n, .. } => *n,
            _ => out_shape.count(),
        };
        let n_train = if wide { 12 } else { rng.range(24, 64) };
        let batch = *rng.pick(&[1usize, 2, 4, 8, 13, 16, 32]);
        let n_eval = if wide || image_out { 70 } else if rng.bool() { rng.range(150, 300) } else { rng.range(500, 1300) };
        let n_eval = if n_eval % 64 == 0 { n_eval + 1 } else { n_eval };
        let train = random_data(&mut rng, cfg.input, n_train, outputs, Obj::MSE, false);
        let mut eval = random_data(&mut rng, cfg.input, n_eval, outputs, Obj::MSE, false);
        for x in eval.xs.iter_mut() {
            x[0] += 3.0;
        }
        let mut eval = DataSet::new(eval.sh, eval.xs.clone(), eval.ts.clone());
        let mut train = train;
        if image_out {
            // image-shaped targets
            train.t_tensors = train.ts.iter().map(|t| tensor_of(out_shape, t)).collect();
            eval.t_tensors = eval.ts.iter().map(|t| tensor_of(out_shape, t)).collect();
        }
        let opt = gen_optimizer(&mut rng, (idx % 5) as usize);
        let desc = format!("{} | {} | train {} batch {} eval {}", cfg.describe(), opt.describe(), n_train, batch, n_eval);
        let mut out = Out::new(desc.clone());
        out.count(if wide { "wide_layer_cases" } else if gen == "stacks" { "stack_cases" } else if image_out { "image_output_cases" } else { "schedule_cases" }, 1);
        let ttags = train.tags();
        let (xr, tr) = (train.x_refs(), train.t_refs());
        let (vxr, vtr) = (eval.x_refs(), eval.t_refs());
        // the same evaluation samples, in the same logical order, but stored elsewhere and in
        // another order in memory (an index-shuffled or bootstrapped data set looks like this):
        // results must not depend on where the tensors live
        let perm: Vec<usize> = {
            let mut p: Vec<usize> = (0..eval.x_tensors.len()).collect();
            let mut r2 = Rng::stream(seed ^ 0x5eed, "layout", idx);
            for i in (1..p.len()).rev() {
                let j = r2.range(0, i);
                p.swap(i, j);
            }
            p
        };
        let mut inv = vec![0usize; perm.len()];
        for (pos, &logical) in perm.iter().enumerate() {
            inv[logical] = pos;
        }
        let store_x: Vec<Tensor> = perm.iter().map(|&i| eval.x_tensors[i].clone()).collect();
        let store_t: Vec<Tensor> = perm.iter().map(|&i| eval.t_tensors[i].clone()).collect();
        let vxr_moved: Vec<&Tensor> = (0..perm.len()).map(|i| &store_x[inv[i]]).collect();
        let vtr_moved: Vec<&Tensor> = (0..perm.len()).map(|i| &store_t[inv[i]]).collect();
        let moved = std::cell::Cell::new(false);
        // a target vector that is longer than the input vector (the surplus is never looked at):
        // whatever the library makes of such a call, it must make the same of it in every pool
        let vtr_long: Vec<&Tensor> = vtr.iter().cloned().chain(vtr.iter().take(1 + (idx as usize) % 3).cloned()).collect();
        let surplus = std::cell::Cell::new(false);
        let once = |threads: usize, delay_seed: u64, delay_us: u32| -> Run {
            let (vxr, vtr) = if moved.get() { (&vxr_moved, &vtr_moved) } else if surplus.get() { (&vxr, &vtr_long) } else { (&vxr, &vtr) };
            let mut net: Network = match build(&cfg, Some(&params)) {
                Ok(n) => n,
                Err(m) => return Run { outcome: Err(format!("build: {}", m)), schedules: vec![], forwards: 0 },
            };
            net.set_objective(lib_obj(Obj::MSE), None);
            net.set_optimizer(opt.build());
            let session = new_session();
            let (r, events) = in_pool(threads, session, delay_seed, delay_us, || {
                guard(|| {
                    // (validate() needs a dense output layer: image-shaped outputs are trained
                    // without validation data and evaluated by predict_batch only)
                    let validation: Option<(&Vec<&Tensor>, &Vec<&Tensor>, i32)> = if image_out { None } else { Some((vxr, vtr, 100)) };
                    // (every second case asks for a progress line per epoch: what is computed must
                    // not depend on it, in pools of any size)
                    let (tl, vl, va) = net.learn(&xr, &tr, validation, batch, 2, if idx % 2 == 1 { Some(1) } else { None });
                    let (l, a) = if image_out { (0.0, 0.0) } else { net.validate(vxr, vtr, 0.1) };
                    let pb = net.predict_batch(vxr);
                    let mut bits: Vec<u32> = Vec::new();
                    for v in tl.iter().chain(vl.iter()).chain(va.iter()) {
                        bits.push(v.to_bits());
                    }
                    bits.push(l.to_bits());
                    bits.push(a.to_bits());
                    for p in pb.iter() {
                        for v in flat(p) {
                            bits.push(v.to_bits());
                        }
                    }
                    bits
                })
            });
            let outcome = r.map(|mut bits| {
                for (_, v) in get_params(&net) {
                    bits.extend(v.iter().map(|x| x.to_bits()));
                }
                Outcome { bits }
            });
            let forwards = events.iter().filter(|e| matches!(e, Event::Forward { .. })).count();
            Run { outcome, schedules: signature(&events, &ttags), forwards }
        };
        let reference = once(1, 0, 0);
        let refbits = match &reference.outcome {
            Ok(o) => o,
            Err(m) => {
                if m.contains("Loss is NaN") {
                    out.nontrivial = false;
                    out.count("cases_aborted_by_the_documented_NaN_loss_panic", 1);
                } else {
                    out.viol("determinism:reference-panic", format!("the reference run panicked: {} [{}]", short(m, 200), desc), J::s(&desc));
                }
                return out;
            }
        };
        out.count("forward_passes_observed", reference.forwards as u64);
        let mut runs: Vec<(String, Run)> = Vec::new();
        runs.push(("1 thread, repeated".to_string(), once(1, 0, 0)));
        moved.set(true);
        runs.push(("1 thread, evaluation tensors stored in another order".to_string(), once(1, 0, 0)));
        runs.push(("4 threads, evaluation tensors stored in another order".to_string(), once(4, idx ^ 0x77, 200)));
        moved.set(false);
        for (k, p) in POOLS.iter().enumerate() {
            for d in 0..2u64 {
                runs.push((format!("{} threads, delay seed {}", p, d), once(*p, seed.wrapping_mul(131).wrapping_add(idx * 17 + k as u64 * 2 + d), 300)));
            }
        }
        // starvation: busy threads compete for the cores while an 8-thread pool runs
        {
            let stop = Arc::new(AtomicBool::new(false));
            let hogs: Vec<_> = (0..16)
                .map(|_| {
                    let s = stop.clone();
                    std::thread::spawn(move || {
                        let mut x = 1u64;
                        while !s.load(Ordering::Relaxed) {
                            x = x.wrapping_mul(6364136223846793005).wrapping_add(1);
                            std::hint::black_box(x);
                        }
                    })
                })
                .collect();
            runs.push(("8 threads, starved by 16 busy threads".to_string(), once(8, idx ^ 0x5a5a, 100)));
            stop.store(true, Ordering::Relaxed);
            for h in hogs {
                let _ = h.join();
            }
        }
        // evaluation vectors of unequal length: compared among themselves (own 1-thread run)
        if !image_out {
            surplus.set(true);
            let own = once(1, 0, 0);
            if let Ok(own_bits) = &own.outcome {
                for p in [2usize, 3, 4, 7] {
                    let r = once(p, idx ^ (p as u64 * 977), 200);
                    out.count("executions_with_a_longer_target_vector_compared", 1);
                    match &r.outcome {
                        Ok(o) if o == own_bits => {}
                        Ok(_) => out.viol("determinism:differs:unequal-lengths", format!("validation targets longer than the validation inputs: the run in a {}-thread pool differs from the same call in a 1-thread pool [{}]", p, desc), J::s(&desc)),
                        Err(m) => out.viol("determinism:panic:unequal-lengths", format!("validation targets longer than the validation inputs: accepted in a 1-thread pool, panics in a {}-thread pool: {} [{}]", p, short(m, 160), desc), J::s(&desc)),
                    }
                }
            } else {
                out.count("calls_with_a_longer_target_vector_refused_by_the_library", 1);
            }
            surplus.set(false);
        }
        for (name, run) in runs.iter() {
            out.count("executions_compared_with_the_reference", 1);
            out.count("forward_passes_observed", run.forwards as u64);
            for (a, o) in run.schedules.iter() {
                out.cover("distinct_sample_to_worker_assignments", format!("{}:{:x}", idx, a));
                out.cover("distinct_task_start_orders", format!("{}:{:x}", idx, o));
            }
            match &run.outcome {
                Err(m) => out.viol("determinism:panic", format!("run [{}] panicked: {} [{}]", name, short(m, 200), desc), J::s(&desc)),
                Ok(o) => {
                    if o != refbits {
                        let k = o.bits.iter().zip(refbits.bits.iter()).position(|(a, b)| a != b).unwrap_or(0);
                        let head = if image_out { 2 } else { 6 };
                        let what = if k < head { "per-epoch loss / accuracy" } else if image_out && k < head + 2 { "validate() result" } else if image_out && k < head + 2 + n_eval * outputs { "predict_batch() output" } else if image_out { "final weights" } else if k < 6 { "per-epoch loss / accuracy" } else if k < 8 { "validate() result" } else if k < 8 + n_eval * outputs { "predict_batch() output" } else { "final weights" };
                        let _ = outputs;
                        out.viol(
                            &format!("determinism:differs:{}", what.split(' ').next().unwrap_or("?")),
                            format!("run [{}] differs from the 1-thread reference in {} (first differing value #{}: {:e} vs {:e}) [{}]", name, what, k, f32::from_bits(o.bits[k]), f32::from_bits(refbits.bits[k]), desc),
                            J::obj().set("case", J::s(&desc)).set("parameters", params_json(&params)),
                        );
                    }
                }
            }
        }
        if idx < 2 {
            out.sample = Some(J::obj().set("case", J::s(&desc)).set("runs", J::Arr(runs.iter().map(|(n, _)| J::s(n)).collect())));
        }
        out
    }
    fn finish(&self, _tier: Tier, _seed: u64, agg: &mut Agg) {
        let cases = agg.count("schedule_cases").max(1);
        let assigns = agg.set_size("distinct_sample_to_worker_assignments") as u64;
        let orders = agg.set_size("distinct_task_start_orders") as u64;
        agg.extra.push(("distinct_schedules_per_case".into(), J::Num((orders as f64 / cases as f64 * 10.0).round() / 10.0)));
        if std::env::var("NV_PLAIN").is_err() {
            agg.require(agg.count("miri_scheduler_seeds_executed") >= 4, "Miri leg did not run".into());
        }
        agg.require(assigns >= 10 * cases && orders >= 20 * cases, format!("too little schedule diversity observed: {} assignments / {} start orders over {} cases", assigns, orders, cases));
    }
}
