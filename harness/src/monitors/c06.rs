//! C06 — objective functions return the documented loss and gradient.

use crate::cfg::{Obj, Sh, OBJS};
use crate::core::*;
use crate::json::J;
use crate::lib_build::{bits_eq, flat, lib_obj, shape_consistent, shape_dims, tensor_of};
use crate::refmodel::{obj_grad, obj_loss, Sc, D, E};
use crate::rng::Rng;
use neurons::objective::Function;

pub struct C06;

fn lib_loss(obj: Obj, clamp: Option<(f32, f32)>, sh: Sh, p: &[f32], t: &[f32]) -> Result<(f32, Vec<f32>, Vec<usize>, bool), String> {
    guard(|| {
        let f = Function::create(lib_obj(obj), clamp);
        let (l, g) = f.loss(&tensor_of(sh, p), &tensor_of(sh, t));
        (l, flat(&g), shape_dims(&g.shape), shape_consistent(&g))
    })
}

fn sh_dims(sh: Sh) -> Vec<usize> {
    match sh {
        Sh::Flat(n) => vec![n],
        Sh::Sp(c, h, w) => vec![c, h, w],
    }
}

fn factor(rng: &mut Rng, n: usize) -> Sh {
    let c = (1..=n).filter(|c| n % c == 0).nth(rng.range(0, 1)).unwrap_or(1);
    let rest = n / c;
    let hs: Vec<usize> = (1..=rest).filter(|h| rest % h == 0).collect();
    let h = *rng.pick(&hs);
    Sh::Sp(c, h, rest / h)
}

fn next_up(x: f32, k: u32) -> f32 {
    let b = x.to_bits();
    if x == 0.0 {
        return f32::from_bits(k);
    }
    if x > 0.0 {
        f32::from_bits(b + k)
    } else {
        f32::from_bits(b - k)
    }
}

/// (prediction, target, family name, interior?) — `interior` means away from the points where
/// the documented formulas have kinks / clamps, so the derivative monitors apply.
fn make_pair(rng: &mut Rng, obj: Obj, fam: usize, n: usize) -> (Vec<f32>, Vec<f32>, &'static str, bool) {
    if !obj.probabilistic() {
        match fam % 6 {
            0 => {
                let s = 10f32.powi(rng.range(0, 9) as i32 - 3);
                let p: Vec<f32> = (0..n).map(|_| rng.normal() as f32 * s).collect();
                let t: Vec<f32> = p.iter().map(|v| v + (rng.normal() as f32 * s).abs().max(1e-3 * s) * if rng.bool() { 1.0 } else { -1.0 }).collect();
                (p, t, "random", true)
            }
            1 => {
                // exactly equal components mixed with unequal ones
                let p: Vec<f32> = (0..n).map(|_| rng.f32_in(-3.0, 3.0)).collect();
                let t: Vec<f32> = p.iter().map(|v| if rng.bool() { *v } else { v + 0.5 }).collect();
                (p, t, "some-equal", false)
            }
            2 => {
                // differences of a few ulps
                let p: Vec<f32> = (0..n).map(|_| rng.f32_in(-2.0, 2.0)).collect();
                let t: Vec<f32> = p.iter().map(|v| next_up(*v, rng.range(1, 4) as u32)).collect();
                (p, t, "ulp-differences", false)
            }
            3 => {
                // tiny magnitudes: differences 1e-45 .. 1e-10
                let d = 10f32.powi(-(rng.range(10, 44) as i32));
                let p: Vec<f32> = (0..n).map(|_| rng.f32_in(-1.0, 1.0) * d).collect();
                let t: Vec<f32> = p.iter().map(|v| v + d * if rng.bool() { 1.0 } else { -1.0 }).collect();
                (p, t, "tiny-differences", false)
            }
            4 => {
                let s = 10f32.powi(rng.range(8, 15) as i32);
                let p: Vec<f32> = (0..n).map(|_| rng.normal() as f32 * s).collect();
                let t: Vec<f32> = (0..n).map(|_| rng.normal() as f32 * s).collect();
                (p, t, "large-magnitudes", false)
            }
            _ => {
                let grid = [0.0f32, -0.0, 1.0, -1.0, 1e-45, 1.1754944e-38, 1e-6, 0.5];
                let p: Vec<f32> = (0..n).map(|_| *rng.pick(&grid)).collect();
                let t: Vec<f32> = (0..n).map(|_| *rng.pick(&grid)).collect();
                (p, t, "boundary-grid", false)
            }
        }
    } else {
        match fam % 6 {
            0 => {
                let p: Vec<f32> = (0..n).map(|_| rng.f32_in(0.02, 0.98)).collect();
                let t: Vec<f32> = (0..n).map(|_| rng.f32_in(0.02, 0.98)).collect();
                (p, t, "random-interior", true)
            }
            1 => {
                // probability vectors, one-hot target
                let raw: Vec<f64> = (0..n).map(|_| rng.f64_in(0.05, 1.0)).collect();
                let s: f64 = raw.iter().sum();
                let p: Vec<f32> = raw.iter().map(|v| (v / s) as f32).collect();
                let k = rng.range(0, n - 1);
                let t: Vec<f32> = (0..n).map(|i| if i == k { 1.0 } else { 0.0 }).collect();
                (p, t, "one-hot-target", false)
            }
            2 => {
                let grid = [0.0f32, 1.0, 1e-6, 0.999999, 1e-45, 1.1754944e-38, 0.5, 1e-7, 0.9999999];
                let p: Vec<f32> = (0..n).map(|_| *rng.pick(&grid)).collect();
                let t: Vec<f32> = (0..n).map(|_| *rng.pick(&grid)).collect();
                (p, t, "boundary-grid", false)
            }
            3 => {
                let p: Vec<f32> = (0..n).map(|_| rng.f32_in(0.0, 1.0)).collect();
                let t: Vec<f32> = p.clone();
                (p, t, "equal-pairs", false)
            }
            4 => {
                let p: Vec<f32> = (0..n).map(|_| if rng.bool() { 0.0 } else { 1.0 }).collect();
                let t: Vec<f32> = (0..n).map(|_| if rng.bool() { 0.0 } else { 1.0 }).collect();
                (p, t, "exact-zeros-and-ones", false)
            }
            _ => {
                let raw: Vec<f64> = (0..n).map(|_| rng.f64_in(0.05, 1.0)).collect();
                let s: f64 = raw.iter().sum();
                let p: Vec<f32> = raw.iter().map(|v| (v / s) as f32).collect();
                let raw: Vec<f64> = (0..n).map(|_| rng.f64_in(0.05, 1.0)).collect();
                let s: f64 = raw.iter().sum();
                let t: Vec<f32> = raw.iter().map(|v| (v / s) as f32).collect();
                let interior = p.iter().all(|v| *v > 0.01 && *v < 0.99);
                (p, t, "distributions", interior)
            }
        }
    }
}

fn check_pair(rng: &mut Rng, obj: Obj, sh: Sh, p: &[f32], t: &[f32], fam: &str, interior: bool, out: &mut Out) {
    let rank = if sh.is_flat() { "flat" } else { "3d" };
    let n = p.len();
    let detail = || J::obj().set("objective", J::s(obj.name())).set("shape", J::s(&sh.name())).set("prediction", J::f32s(p)).set("target", J::f32s(t)).set("family", J::s(fam));
    let (loss, grad, gdims, gcons) = match lib_loss(obj, None, sh, p, t) {
        Ok(r) => r,
        Err(m) => {
            out.viol(&format!("obj:{}:panic:{}", obj.name(), rank), format!("{} loss() panicked on {} pair: {}", obj.name(), fam, short(&m, 160)), detail());
            return;
        }
    };
    out.count("loss_calls", 1);
    // (2) shape
    if gdims != sh_dims(sh) || !gcons || grad.len() != n {
        out.viol(&format!("obj:{}:grad:shape:{}", obj.name(), rank), format!("{}: prediction shape {:?}, gradient shape {:?} (consistent {})", obj.name(), sh_dims(sh), gdims, gcons), detail());
        return;
    }
    // (1)+(6) documented loss, finite
    let pe: Vec<E> = p.iter().map(|v| E::exact(*v as f64)).collect();
    let tf: Vec<f64> = t.iter().map(|v| *v as f64).collect();
    let want = obj_loss(obj, &pe, &tf);
    if !loss.is_finite() {
        out.viol(&format!("obj:{}:loss:not-finite", obj.name()), format!("{} loss = {} on finite in-domain {} pair (documented value {:e})", obj.name(), loss, fam, want.v), detail());
    } else if (loss as f64 - want.v).abs() > 8.0 * want.e + 1e-30 {
        out.viol(&format!("obj:{}:loss:value:{}", obj.name(), rank), format!("{} loss = {:e}, documented formula gives {:e} (bound {:e}) on {} pair", obj.name(), loss, want.v, 8.0 * want.e, fam), detail());
    }
    // documented gradient
    let pf: Vec<f64> = p.iter().map(|v| *v as f64).collect();
    let gwant = obj_grad(obj, &pf, &tf);
    for i in 0..n {
        if !grad[i].is_finite() {
            out.viol(&format!("obj:{}:grad:not-finite", obj.name()), format!("{} gradient[{}] = {} for prediction {:e}, target {:e} ({} pair; documented {:e})", obj.name(), i, grad[i], p[i], t[i], fam, gwant[i]), detail());
            break;
        }
        // RMSE divides by an f32 sum over n terms: its relative error grows with n
        if (grad[i] as f64 - gwant[i]).abs() > (1e-5 + n as f64 * 1.2e-7) * gwant[i].abs() + 1e-37 {
            out.viol(&format!("obj:{}:grad:value:{}", obj.name(), rank), format!("{} gradient[{}] = {:e}, documented {:e} for prediction {:e}, target {:e} ({} pair)", obj.name(), i, grad[i], gwant[i], p[i], t[i], fam), detail());
            break;
        }
    }
    // (3) clamp: exact, metamorphic
    let (lo, hi) = match rng.range(0, 7) {
        5 => (f32::NEG_INFINITY, rng.f32_in(-1.0, 1.0)),
        6 => (rng.f32_in(-1.0, 1.0), f32::INFINITY),
        7 => (f32::NEG_INFINITY, f32::INFINITY),
        0 => (-1.0f32, 1.0f32),
        1 => (-0.1, 0.1),
        2 => {
            let a = rng.f32_in(-2.0, 2.0);
            (a, a)
        }
        3 => (0.0, f32::MAX),
        _ => {
            let a = rng.f32_in(-3.0, 3.0);
            let b = rng.f32_in(-3.0, 3.0);
            (a.min(b), a.max(b))
        }
    };
    match lib_loss(obj, Some((lo, hi)), sh, p, t) {
        Err(m) => out.viol(&format!("obj:{}:clamp:panic", obj.name()), format!("{} with clamp ({},{}) panicked: {}", obj.name(), lo, hi, short(&m, 160)), detail()),
        Ok((lc, gc, dc, cc)) => {
            out.count("clamped_loss_calls", 1);
            if !(lc.to_bits() == loss.to_bits() || lc.is_nan() && loss.is_nan()) {
                out.viol(&format!("obj:{}:clamp:loss-changed", obj.name()), format!("{}: loss {:e} without clamp, {:e} with clamp ({},{})", obj.name(), loss, lc, lo, hi), detail());
            }
            if dc != sh_dims(sh) || !cc {
                out.viol(&format!("obj:{}:clamp:shape", obj.name()), format!("{} clamped gradient has shape {:?}", obj.name(), dc), detail());
            } else {
                let want: Vec<f32> = grad.iter().map(|g| if g.is_nan() { *g } else { g.max(lo).min(hi) }).collect();
                if !bits_eq(&gc, &want) && !gc.iter().zip(want.iter()).all(|(a, b)| a == b || (a.is_nan() && b.is_nan())) {
                    out.viol(&format!("obj:{}:clamp:value", obj.name()), format!("{}: clamped gradient differs from the unclamped gradient limited to [{},{}]", obj.name(), lo, hi), detail().set("unclamped", J::f32s(&grad)).set("clamped", J::f32s(&gc)));
                }
                if gc.iter().any(|g| !(g.is_nan() || (*g >= lo && *g <= hi))) {
                    out.viol(&format!("obj:{}:clamp:outside", obj.name()), format!("{}: clamped gradient leaves [{},{}]", obj.name(), lo, hi), detail());
                }
            }
        }
    }
    // (5) gradient is the derivative of the reported loss (AE, MSE, BCE, KL), interior points
    if interior && matches!(obj, Obj::AE | Obj::MSE | Obj::BCE | Obj::KL) {
        let picks: Vec<usize> = if n <= 16 { (0..n).collect() } else { (0..16).map(|_| rng.range(0, n - 1)).collect() };
        for i in picks {
            let pd: Vec<D> = p.iter().enumerate().map(|(j, v)| if i == j { D::var(*v as f64) } else { D::c(*v as f64) }).collect();
            let l = obj_loss(obj, &pd, &tf);
            // tolerance relative to the magnitude of the terms the derivative is summed from
            // (`m`): where the terms cancel (BCE at prediction == target) the dual number is left
            // with rounding residue of the order 1e-16 x m, the library with an exact 0
            if (grad[i] as f64 - l.d).abs() > 1e-4 * l.d.abs() + 1e-5 * l.m + 1e-30 {
                out.viol(&format!("obj:{}:grad:not-derivative", obj.name()), format!("{} gradient[{}] = {:e} but d(loss)/d(prediction) = {:e}", obj.name(), i, grad[i], l.d), detail());
                break;
            }
            out.count("derivative_comparisons", 1);
        }
        // black-box: central difference of the library's own loss()
        let i = rng.range(0, n - 1);
        let h = (p[i].abs() * 2e-2).max(if obj.probabilistic() { 2e-3 } else { 2e-2 });
        let (mut pp, mut pm) = (p.to_vec(), p.to_vec());
        pp[i] = p[i] + h;
        pm[i] = p[i] - h;
        let crosses = obj == Obj::AE && (pm[i] < t[i]) != (pp[i] < t[i]);
        let inside = !obj.probabilistic() || (pm[i] > 0.01 && pp[i] < 0.99);
        if !crosses && inside {
            if let (Ok((lp, ..)), Ok((lm, ..))) = (lib_loss(obj, None, sh, &pp, t), lib_loss(obj, None, sh, &pm, t)) {
                let hh = (pp[i] as f64 - pm[i] as f64) / 2.0;
                let fd = (lp as f64 - lm as f64) / (2.0 * hh);
                let noise = 4.0 * 6e-8 * (lp.abs().max(lm.abs()) as f64) * (n as f64 + 2.0) / hh;
                // curvature: second-order term of the central difference, bounded via the two one-sided slopes
                let curv = ((lp as f64 - loss as f64) / hh - (loss as f64 - lm as f64) / hh).abs();
                if noise < 0.05 * (grad[i] as f64).abs() && (fd - grad[i] as f64).abs() > 0.02 * (grad[i] as f64).abs() + noise + curv {
                    out.viol(&format!("obj:{}:grad:finite-difference", obj.name()), format!("{}: central difference of loss() in component {} is {:e}, gradient says {:e}", obj.name(), i, fd, grad[i]), detail());
                }
                out.count("finite_difference_comparisons", 1);
            }
        }
    }
}

impl Monitor for C06 {
    fn id(&self) -> &'static str {
        "C06"
    }
    fn gens(&self, tier: Tier) -> Vec<(&'static str, u64)> {
        vec![("pairs", tier.pick(420_000, 8_400_000)), ("grid", tier.pick(70_000, 700_000)), ("huge_pairs", tier.pick(84, 420))]
    }
    fn rule(&self) -> &'static str {
        "pairs: case = (objective, family, length 1..8 or (every third block) from {9,15..17,31,33,63..65,127..129,255,257,1000,1023,1025,4097}, flat or 3-D factorisation); families for AE/MAE/MSE/RMSE: random (scales 1e-3..1e5), some-equal, ulp-differences, tiny-differences (1e-44..1e-10), large-magnitudes (1e8..1e15), boundary-grid; for CE/BCE/KL: random-interior, one-hot-target, boundary-grid {0,1,1e-6,1-1e-6,denormals,..}, equal-pairs, exact-zeros-and-ones, distributions. Every case: loss vs documented formula (running f32 error bound), loss finite, gradient vs documented formula (1e-5 + n eps relative), gradient shape == prediction shape, a clamp interval applied (symmetric, narrow, degenerate, half-line [0,MAX], random, one-sided with an infinite bound, (-inf,inf)): loss unchanged and gradient == unclamped gradient limited to the interval bit-for-bit; interior cases of AE/MSE/BCE/KL additionally: gradient == dual-number derivative of the documented loss and ~ central difference of the library's own loss(). Every fourth case applies a clamp to raw scores (predictions up to 5, targets up to 3, outside the probabilistic domain): clamped gradient == unclamped gradient limited to the interval. Every fourth case evaluates ONE objective value on three pairs of different sizes and layouts in a row (loss and gradient of each against the documented formulas). grid: full product of boundary values for vectors of length <= 3. huge_pairs: every objective on random pairs of 65535, 65536, 65537, 70000, 76800 (3x160x160) and 131075 elements, flat and 3-D, same checks (more elements than 16 bits count). Distinct = distinct (objective, family, shape, data hash)."
    }
    fn assumptions(&self) -> Vec<&'static str> {
        vec![
            "RMSE gradient read as sign(p-a)/n (the reading the pinned unit test confirms)",
            "0*ln(0/p) := 0 for KL (convention of the PyTorch source the doc comment cites)",
            "AE/MAE/MSE/RMSE magnitudes limited to 1e15 (beyond that the exact result overflows f32)",
        ]
    }
    fn run(&self, gen: &str, seed: u64, idx: u64, _tier: Tier) -> Out {
        let mut rng = Rng::stream(seed, gen, idx);
        let obj = OBJS[(idx % 7) as usize];
        let mut out = Out::new(String::new());
        match gen {
            "huge_pairs" => {
                // pairs with more elements than 16 bits can count (images of 3x160x160, long
                // signals): the divisor n of MAE / MSE / RMSE and every running index
                let sizes = [65_535usize, 65_536, 65_537, 70_000, 76_800, 131_075];
                let n = sizes[((idx / 7) % 6) as usize];
                let (p, t, name, interior) = make_pair(&mut rng, obj, 0, n);
                let sh = if (idx / 42) % 2 == 1 { if n == 76_800 { Sh::Sp(3, 160, 160) } else { factor(&mut rng, n) } } else { Sh::Flat(n) };
                out.key = format!("{} huge {} {}", obj.name(), sh.name(), idx / 84);
                out.cover("huge_pair_lengths", n.to_string());
                out.count("pairs_of_65535_or_more_elements", 1);
                check_pair(&mut rng, obj, sh, &p, &t, name, interior, &mut out);
            }
            "pairs" => {
                let fam = ((idx / 7) % 6) as usize;
                // every third block of cases: long vectors around the sizes where chunked or blocked
                // summation would switch code paths
                let n = if (idx / 336) % 3 == 2 { *rng.pick(&[9usize, 15, 16, 17, 31, 33, 63, 64, 65, 127, 128, 129, 255, 257, 1000, 1023, 1025, 4097]) } else { 1 + ((idx / 42) % 8) as usize };
                if n > 8 {
                    out.cover("long_vector_lengths", n.to_string());
                }
                let (p, t, name, interior) = make_pair(&mut rng, obj, fam, n);
                let sh = if (idx / 336) % 2 == 1 || rng.chance(0.3) { factor(&mut rng, n) } else { Sh::Flat(n) };
                out.key = format!("{} {} {} {:016x}", obj.name(), name, sh.name(), crate::rng::fnv(&format!("{:?}{:?}", p, t)));
                out.cover("objective_family_rank", format!("{}/{}/{}", obj.name(), name, if sh.is_flat() { "flat" } else { "3d" }));
                check_pair(&mut rng, obj, sh, &p, &t, name, interior, &mut out);
                // the same numbers in the other layout, back to back on this thread: the second
                // answer must carry the second layout (nothing remembered from the first call)
                if idx % 4 == 1 {
                    let other = if sh.is_flat() { factor(&mut rng, n) } else { Sh::Flat(n) };
                    if let (Ok(a), Ok(b)) = (lib_loss(obj, None, sh, &p, &t), lib_loss(obj, None, other, &p, &t)) {
                        out.count("back_to_back_calls_in_two_layouts", 1);
                        if b.2 != sh_dims(other) || !b.3 || a.2 != sh_dims(sh) {
                            out.viol(&format!("obj:{}:grad:shape:after-other-layout", obj.name()), format!("{}: loss() on shape {:?} directly after the same numbers in shape {:?} returns a gradient of shape {:?}", obj.name(), sh_dims(other), sh_dims(sh), b.2), J::obj().set("prediction", J::f32s(&p)).set("target", J::f32s(&t)));
                        }
                    }
                }
                // the clamp clause does not depend on the values being in the objective's domain:
                // raw scores and targets outside [0,1] (magnitudes up to 5) - the clamped gradient
                // must be the unclamped one limited to the interval, for every objective
                if idx % 4 == 2 {
                    let m = rng.range(1, 8);
                    let pr: Vec<f32> = (0..m).map(|_| rng.f32_in(0.05, 5.0) * if obj.probabilistic() { 1.0 } else if rng.bool() { 1.0 } else { -1.0 }).collect();
                    let tg: Vec<f32> = (0..m).map(|_| rng.f32_in(0.0, 3.0) * if obj.probabilistic() { 1.0 } else if rng.bool() { 1.0 } else { -1.0 }).collect();
                    let shr = if rng.bool() { Sh::Flat(m) } else { factor(&mut rng, m) };
                    let (lo, hi) = *rng.pick(&[(-1.0f32, 1.0f32), (-2.0, 5.0), (-1.0, 2.0), (-0.5, 0.5), (-3.0, 1.0), (-1.5, 1.5)]);
                    if let (Ok(u), Ok(c)) = (lib_loss(obj, None, shr, &pr, &tg), lib_loss(obj, Some((lo, hi)), shr, &pr, &tg)) {
                        out.count("clamp_checks_on_raw_scores", 1);
                        let want: Vec<f32> = u.1.iter().map(|g| if g.is_nan() { *g } else { g.max(lo).min(hi) }).collect();
                        if !bits_eq(&c.1, &want) && !c.1.iter().zip(want.iter()).all(|(a, b)| a == b || (a.is_nan() && b.is_nan())) {
                            out.viol(
                                &format!("obj:{}:clamp:value:raw-scores", obj.name()),
                                format!("{} with clamp ({},{}) on raw scores: the clamped gradient differs from the unclamped gradient limited to the interval", obj.name(), lo, hi),
                                J::obj().set("prediction", J::f32s(&pr)).set("target", J::f32s(&tg)).set("unclamped", J::f32s(&u.1)).set("clamped", J::f32s(&c.1)),
                            );
                        }
                    }
                }
                // ONE objective value used for several pairs of different sizes and layouts, as a
                // caller evaluating different heads would: every answer is that of the current pair
                if idx % 4 == 3 {
                    let fobj = Function::create(lib_obj(obj), None);
                    let mut sizes = vec![n];
                    for _ in 0..2 {
                        let mut m = rng.range(1, 9);
                        if m == *sizes.last().unwrap() {
                            m += 1;
                        }
                        sizes.push(m);
                    }
                    for (k, m) in sizes.iter().enumerate() {
                        let (p2, t2, _, _) = if k == 0 { (p.clone(), t.clone(), name, interior) } else { make_pair(&mut rng, obj, fam, *m) };
                        let sh2 = if rng.bool() { Sh::Flat(*m) } else { factor(&mut rng, *m) };
                        let r = guard(|| {
                            let (l, g) = fobj.loss(&tensor_of(sh2, &p2), &tensor_of(sh2, &t2));
                            (l, flat(&g), shape_dims(&g.shape))
                        });
                        let pe: Vec<E> = p2.iter().map(|v| E::exact(*v as f64)).collect();
                        let tf: Vec<f64> = t2.iter().map(|v| *v as f64).collect();
                        let want = obj_loss(obj, &pe, &tf);
                        let gwant = obj_grad(obj, &p2.iter().map(|v| *v as f64).collect::<Vec<f64>>(), &tf);
                        match r {
                            Err(m2) => out.viol(&format!("obj:{}:reused:panic", obj.name()), format!("{} loss() call #{} on one objective value panicked: {}", obj.name(), k + 1, short(&m2, 160)), J::Null),
                            Ok((l, g, dims)) => {
                                out.count("calls_on_a_reused_objective_value", 1);
                                let bad_loss = l.is_finite() && want.v.is_finite() && (l as f64 - want.v).abs() > 8.0 * want.e + 1e-30;
                                let bad_grad = g.len() != *m || dims != sh_dims(sh2) || (0..*m).any(|i| g[i].is_finite() && (g[i] as f64 - gwant[i]).abs() > (1e-5 + *m as f64 * 1.2e-7) * gwant[i].abs() + 1e-37);
                                if bad_loss || bad_grad {
                                    out.viol(
                                        &format!("obj:{}:reused:{}", obj.name(), if bad_loss { "loss" } else { "gradient" }),
                                        format!("{}: call #{} on the same objective value (sizes so far {:?}): loss {:e}, documented {:e}; gradient shape {:?}", obj.name(), k + 1, &sizes[..=k], l, want.v, dims),
                                        J::obj().set("prediction", J::f32s(&p2)).set("target", J::f32s(&t2)).set("sizes", J::usizes(&sizes)),
                                    );
                                    break;
                                }
                            }
                        }
                    }
                }
                if idx < 14 {
                    out.sample = Some(J::obj().set("objective", J::s(obj.name())).set("family", J::s(name)).set("shape", J::s(&sh.name())).set("prediction", J::f32s(&p)).set("target", J::f32s(&t)));
                }
            }
            "grid" => {
                // full product of boundary values for short vectors
                let grid: Vec<f32> = if obj.probabilistic() { vec![0.0, 1.0, 1e-6, 0.999999, 1e-45, 0.5, 1e-7] } else { vec![0.0, -0.0, 1.0, -1.0, 1e-45, -1e-45, 1e-23, 1e-6, 3e-39] };
                let n = 1 + ((idx / 7) % 3) as usize;
                let g = grid.len();
                let total = (g * g).pow(n as u32) as u64;
                // walk a seeded slice of the product space: 64 points per case
                let start = (idx / 21) * 64 + seed % 7;
                let mut cnt = 0u64;
                for k in 0..64u64 {
                    let mut code = (start + k) % total;
                    let mut p = Vec::new();
                    let mut t = Vec::new();
                    for _ in 0..n {
                        p.push(grid[(code % g as u64) as usize]);
                        code /= g as u64;
                        t.push(grid[(code % g as u64) as usize]);
                        code /= g as u64;
                    }
                    let sh = if k % 2 == 0 { Sh::Flat(n) } else { Sh::Sp(1, 1, n) };
                    check_pair(&mut rng, obj, sh, &p, &t, "grid-product", false, &mut out);
                    cnt += 1;
                }
                out.key = format!("grid {} n{} from {}", obj.name(), n, start);
                out.evals = cnt;
                out.distinct = Some(cnt.min(total));
                out.cover("objective_family_rank", format!("{}/grid-product", obj.name()));
            }
            _ => panic!("unknown generator {}", gen),
        }
        out
    }
    fn finish(&self, _tier: Tier, _seed: u64, agg: &mut Agg) {
        agg.require(agg.set_size("objective_family_rank") >= 7 * 6 * 2, format!("only {} (objective, family, rank) combinations exercised", agg.set_size("objective_family_rank")));
        agg.require(agg.set_size("long_vector_lengths") >= 18, "long vector lengths not all exercised".into());
        agg.require(agg.count("derivative_comparisons") > 500, "too few derivative comparisons".into());
    }
}
