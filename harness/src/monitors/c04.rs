//! C04 — training is ordered mini-batch gradient-sum descent.

use crate::cfg::*;
use crate::core::*;
use crate::gen::*;
use crate::json::J;
use crate::lib_build::*;
use crate::monitors::c03::{model_step, St};
use crate::rng::Rng;
use crate::train::*;
use neurons::network::{Layer, Network};
use neurons::objective;
use neurons::tensor::Tensor;
use neurons::verif::Event;
use std::collections::HashMap;

pub struct C04;

/// Per-layer gradient vectors in the order of `P::flat` from the reversed lists of the hooked
/// backward pass (plain layers only).
pub fn grads_flat(net: &Network, wg: &[Tensor], bg: &[Option<Tensor>]) -> Vec<Vec<f32>> {
    let n = net.layers.len();
    (0..n)
        .map(|i| match &net.layers[i] {
            Layer::Dense(_) => {
                let mut v = flat(&wg[n - 1 - i]);
                if let Some(b) = &bg[n - 1 - i] {
                    v.extend(flat(b));
                }
                v
            }
            Layer::Convolution(_) | Layer::Deconvolution(_) => flat(&wg[n - 1 - i]),
            _ => Vec::new(),
        })
        .collect()
}

/// Checks the event log of one learn() call against the trace grammar. Returns a description
/// of the first deviation.
pub fn check_trace(events: &[Event], train_tags: &[u64], val_tags: Option<&[u64]>, batch: usize, epochs_run: usize) -> Result<(), (String, String)> {
    let mut pos = 0usize;
    let groups: Vec<&[u64]> = train_tags.chunks(batch).collect();
    let describe = |e: &Event| match e {
        Event::Forward { tag, .. } => {
            if let Some(i) = train_tags.iter().position(|t| t == tag) {
                format!("Forward(training sample {})", i)
            } else if let Some(i) = val_tags.and_then(|v| v.iter().position(|t| t == tag)) {
                format!("Forward(validation sample {})", i)
            } else {
                "Forward(unknown input)".to_string()
            }
        }
        Event::Update { stepnr, .. } => format!("Update(stepnr {})", stepnr),
    };
    for epoch in 1..=epochs_run {
        for (gi, group) in groups.iter().enumerate() {
            // the group's forward passes, each exactly once, any order
            let mut want: HashMap<u64, i32> = HashMap::new();
            for t in group.iter() {
                *want.entry(*t).or_insert(0) += 1;
            }
            let mut seen = 0;
            while seen < group.len() {
                match events.get(pos) {
                    Some(Event::Forward { tag, .. }) => {
                        match want.get_mut(tag) {
                            Some(c) if *c > 0 => *c -= 1,
                            _ => {
                                return Err((
                                    "trace:unexpected-forward".into(),
                                    format!("epoch {} group {}: {} at event {} does not belong to the group's samples {:?} or was already evaluated", epoch, gi, describe(&events[pos]), pos, (gi * batch..gi * batch + group.len()).collect::<Vec<_>>()),
                                ))
                            }
                        }
                        seen += 1;
                        pos += 1;
                    }
                    Some(e) => return Err(("trace:update-before-group-complete".into(), format!("epoch {} group {}: {} at event {} after only {} of {} forward passes of the group", epoch, gi, describe(e), pos, seen, group.len()))),
                    None => return Err(("trace:truncated".into(), format!("event log ends in epoch {} group {} after {} of {} forward passes", epoch, gi, seen, group.len()))),
                }
            }
            match events.get(pos) {
                Some(Event::Update { stepnr, .. }) => {
                    if *stepnr != epoch as i32 {
                        return Err(("trace:wrong-step-number".into(), format!("epoch {} group {}: optimizer step carries step number {}", epoch, gi, stepnr)));
                    }
                    pos += 1;
                }
                Some(e) => return Err(("trace:missing-update".into(), format!("epoch {} group {}: expected exactly one Update after the group's forward passes, found {}", epoch, gi, describe(e)))),
                None => return Err(("trace:missing-update".into(), format!("epoch {} group {}: event log ends before the group's optimizer step", epoch, gi))),
            }
        }
        if let Some(vt) = val_tags {
            let mut want: HashMap<u64, i32> = HashMap::new();
            for t in vt.iter() {
                *want.entry(*t).or_insert(0) += 1;
            }
            for k in 0..vt.len() {
                match events.get(pos) {
                    Some(Event::Forward { tag, .. }) if want.get(tag).cloned().unwrap_or(0) > 0 => {
                        *want.get_mut(tag).unwrap() -= 1;
                        pos += 1;
                    }
                    Some(e) => return Err(("trace:validation".into(), format!("epoch {}: expected the forward pass of a not yet evaluated validation sample ({} of {} done), found {}", epoch, k, vt.len(), describe(e)))),
                    None => return Err(("trace:validation".into(), format!("epoch {}: event log ends during validation ({} of {} done)", epoch, k, vt.len()))),
                }
            }
        }
    }
    if pos != events.len() {
        return Err(("trace:extra-events".into(), format!("{} events after the last expected one; first: {}", events.len() - pos, describe(&events[pos]))));
    }
    Ok(())
}

/// The same optimizer configuration with half the learning rate.
fn halved(o: &OptCfg) -> OptCfg {
    let mut o = o.clone();
    match &mut o {
        OptCfg::Sgd { lr, .. } | OptCfg::Sgdm { lr, .. } | OptCfg::Adam { lr, .. } | OptCfg::AdamW { lr, .. } | OptCfg::Rmsprop { lr, .. } => *lr *= 0.5,
    }
    o
}

/// Equivalent runs on architectures the twin trainer does not model (feedback blocks with and
/// without bias, skip and loop connections): with plain SGD (stateless; the step number is not
/// used) one learn() call over G groups and E epochs must leave exactly the weights of E*G
/// learn() calls that each process one group - every group gets one step on the sum of ITS
/// samples' gradients at the weights held before that step, nothing carried over between groups.
fn split_runs(seed: u64, idx: u64) -> Out {
    let mut rng = Rng::stream(seed, "split_runs", idx);
    let mut o = NetOpts::standard();
    o.max_depth = 3;
    o.min_depth = 2;
    o.max_count = 24;
    o.max_extent = 4;
    o.end_dense = Some(*rng.pick(&[Act::Linear, Act::Tanh, Act::Sigmoid]));
    let mut cfg = random_net(&mut rng, &o);
    let mut structure = Vec::new();
    if idx % 4 != 3 && insert_block(&mut rng, &mut cfg, 3) {
        structure.push("block");
    }
    if let Ok(sh) = cfg.shapes() {
        let nl = cfg.layers.len();
        let plain = |l: &LCfg| !matches!(l, LCfg::Feedback { .. });
        if idx % 3 == 1 {
            let c: Vec<(usize, usize)> = (0..nl).flat_map(|a| (a + 1..nl).map(move |b| (a, b))).filter(|(a, b)| sh[*a].0.count() == sh[*b].0.count() && plain(&cfg.layers[*a]) && plain(&cfg.layers[*b])).collect();
            if !c.is_empty() {
                cfg.skips = vec![*rng.pick(&c)];
                cfg.skipacc = Acc::Add;
                structure.push("skip");
            }
        }
        if idx % 3 == 2 {
            let c: Vec<usize> = (0..nl.saturating_sub(1)).filter(|b| sh[*b].0 == sh[*b].1 && !sh[*b].2 && plain(&cfg.layers[*b]) && !matches!(cfg.layers[*b], LCfg::Pool { .. })).collect();
            if !c.is_empty() {
                let b = *rng.pick(&c);
                cfg.loops = vec![(b, b, rng.range(1, 2), rng.bool())];
                cfg.loopacc = *rng.pick(&[Acc::Add, Acc::Mean]);
                structure.push("loop");
            }
        }
    }
    let outputs = match cfg.layers.last().unwrap() {
        LCfg::Dense { n, .. } => *n,
        _ => 1,
    };
    let n = rng.range(2, 8);
    let batch = rng.range(1, n);
    let epochs = rng.range(1, 3);
    let opt = OptCfg::Sgd { lr: *rng.pick(&[0.05f32, 0.1, 0.01]), decay: if rng.bool() { Some(0.01) } else { None } };
    let desc = format!("{} | {} | N{} B{} E{}", cfg.describe(), opt.describe(), n, batch, epochs);
    let mut out = Out::new(desc.clone());
    let params = match gen_params(&cfg, &mut rng, -0.8, 0.8) {
        Ok(p) => p,
        Err(_) => {
            out.nontrivial = false;
            return out;
        }
    };
    let train = random_data(&mut rng, cfg.input, n, outputs, Obj::MSE, false);
    let mk = || -> Result<Network, String> {
        let mut net = build(&cfg, Some(&params))?;
        net.set_objective(lib_obj(Obj::MSE), None);
        net.set_optimizer(opt.build());
        Ok(net)
    };
    let (mut a, mut b) = match (mk(), mk()) {
        (Ok(a), Ok(b)) => (a, b),
        _ => {
            out.nontrivial = false;
            out.count("split_run_networks_rejected_by_the_library", 1);
            return out;
        }
    };
    let (xr, tr) = (train.x_refs(), train.t_refs());
    let (ra, _) = in_cached_pool(2, || guard(|| a.learn(&xr, &tr, None, batch, epochs as i32, None)));
    let (rb, _) = in_cached_pool(2, || {
        guard(|| {
            let mut per_epoch: Vec<f64> = Vec::new();
            for _ in 0..epochs {
                let mut sum = 0.0f64;
                let mut groups = 0usize;
                for g in (0..n).collect::<Vec<_>>().chunks(batch) {
                    let gx: Vec<&Tensor> = g.iter().map(|i| xr[*i]).collect();
                    let gt: Vec<&Tensor> = g.iter().map(|i| tr[*i]).collect();
                    let (tl, _, _) = b.learn(&gx, &gt, None, g.len(), 1, None);
                    sum += tl[0] as f64;
                    groups += 1;
                }
                per_epoch.push(sum / groups as f64);
            }
            per_epoch
        })
    });
    let detail = || J::obj().set("case", J::s(&desc)).set("parameters", params_json(&params));
    match (ra, rb) {
        (Err(_), Err(_)) => {
            out.nontrivial = false;
            out.count("split_runs_where_both_variants_panic_(training_this_architecture_is_not_supported)", 1);
        }
        (Ok(_), Err(m)) | (Err(m), Ok(_)) => {
            if m.contains("Loss is NaN") {
                out.nontrivial = false;
            } else {
                out.viol("train:split-runs:one-variant-panics", format!("one learn() call vs one call per group: only one of them panics: {} [{}]", short(&m, 160), desc), detail());
            }
        }
        (Ok((tl, _, _)), Ok(per_epoch)) => {
            out.count("split_run_pairs_compared", 1);
            for s in structure.iter() {
                out.cover("split_run_structures", s.to_string());
            }
            let (pa, pb) = (get_params(&a), get_params(&b));
            let fa: Vec<f32> = pa.iter().flat_map(|(_, v)| v.clone()).collect();
            let fb: Vec<f32> = pb.iter().flat_map(|(_, v)| v.clone()).collect();
            if fa.iter().any(|v| !v.is_finite()) {
                out.nontrivial = false;
                return out;
            }
            if let Some(k) = (0..fa.len()).find(|k| fa[*k].to_bits() != fb[*k].to_bits()) {
                out.viol(
                    "train:split-runs:weights",
                    format!("one learn() call over {} groups x {} epochs leaves parameter {} = {:e}; one call per group leaves {:e} [{}]", (n + batch - 1) / batch, epochs, k, fa[k], fb[k], desc),
                    detail(),
                );
            }
            for e in 0..epochs.min(tl.len()) {
                if (tl[e] as f64 - per_epoch[e]).abs() > 1e-5 * per_epoch[e].abs() + 1e-7 {
                    out.viol("train:split-runs:epoch-loss", format!("epoch {}: reported training loss {:e}, mean over the groups' own losses {:e} [{}]", e + 1, tl[e], per_epoch[e], desc), detail());
                    break;
                }
            }
        }
    }
    out
}

/// Twin trainer for a network with one feedback block (mean coupling, no internal skips, 1..4
/// loops): per group, every unrolled copy of a body layer takes one step of the documented
/// update rule on the sum of ITS per-sample gradients (own optimizer state per copy), then the
/// copies are coupled by the arithmetic mean of the stepped values. Gradients are the library's
/// own (hooked backward at the twin's weights), as in `runs`.
pub fn block_twin(seed: u64, idx: u64) -> Out {
    use crate::monitors::c01::{coords, lib_grad_at};
    let mut rng = Rng::stream(seed, "block_twin", idx);
    let acts = [Act::Tanh, Act::Sigmoid, Act::Linear, Act::Leaky];
    let depth = rng.range(2, 3);
    let mut cfg = chain(&mut rng, (idx % 2) as usize, depth, &acts, false, true);
    let mut out = Out::new(String::new());
    if !insert_block(&mut rng, &mut cfg, 4) || cfg.layers.iter().filter(|l| matches!(l, LCfg::Feedback { .. })).count() != 1 {
        out.nontrivial = false;
        return out;
    }
    let opt = gen_optimizer(&mut rng, ((idx / 2) % 5) as usize);
    let outputs = match cfg.layers.last().unwrap() {
        LCfg::Dense { n, .. } => *n,
        _ => 1,
    };
    let n = rng.range(2, 5);
    let batch = rng.range(1, n);
    let epochs = rng.range(1, 2);
    let params = match gen_params(&cfg, &mut rng, -0.8, 0.8) {
        Ok(p) => p,
        Err(_) => {
            out.nontrivial = false;
            return out;
        }
    };
    let train = random_data(&mut rng, cfg.input, n, outputs, Obj::MSE, false);
    let desc = format!("{} | {} | N{} B{} E{}", cfg.describe(), opt.describe(), n, batch, epochs);
    out.key = desc.clone();
    let detail = || J::obj().set("case", J::s(&desc)).set("parameters", params_json(&params));
    let mk = |p: &[P]| -> Result<Network, String> {
        let mut net = build(&cfg, Some(p))?;
        net.set_objective(lib_obj(Obj::MSE), None);
        Ok(net)
    };
    let mut net = match mk(&params) {
        Ok(n) => n,
        Err(_) => {
            out.nontrivial = false;
            return out;
        }
    };
    net.set_optimizer(opt.build());
    let (xr, tr) = (train.x_refs(), train.t_refs());
    let (res, _) = in_cached_pool(2, || guard(|| net.learn(&xr, &tr, None, batch, epochs as i32, None)));
    let tl = match res {
        Ok((tl, _, _)) => tl,
        Err(m) => {
            if m.contains("Loss is NaN") {
                out.nontrivial = false;
            } else {
                out.viol("train:block-twin:learn-panic", format!("learn panicked: {} [{}]", short(&m, 160), desc), detail());
            }
            return out;
        }
    };
    let objf = objective::Function::create(lib_obj(Obj::MSE), None);
    let cs = coords(&cfg, &params);
    let copies_of = |li: usize| match &cfg.layers[li] {
        LCfg::Feedback { loops, .. } => *loops,
        _ => 1,
    };
    // twin in f64 and in f32 arithmetic (the distance between the two loosens the comparison)
    let run = |single: bool, perturb: bool| -> Result<(Vec<Vec<f64>>, Vec<Vec<f64>>, Vec<f64>), String> {
        // `perturb`: start one ulp-sized relative step away - how far the final weights move
        // measures how strongly this run amplifies rounding-level differences
        let mut shared: Vec<Vec<f64>> = params.iter().enumerate().map(|(li, p)| p.flat().iter().enumerate().map(|(i, v)| *v as f64 * if perturb { 1.0 + 1.2e-7 * (((li * 31 + i * 17) % 5) as f64 - 2.0) } else { 1.0 }).collect()).collect();
        let mut travel: Vec<Vec<f64>> = shared.iter().map(|l| vec![0.0; l.len()]).collect();
        let mut st64: std::collections::HashMap<(usize, usize, usize), St<f64>> = std::collections::HashMap::new();
        let mut st32: std::collections::HashMap<(usize, usize, usize), St<f32>> = std::collections::HashMap::new();
        let mut cur = params.clone();
        let mut losses = Vec::new();
        guard(|| {
            for epoch in 1..=epochs {
                let (mut le, mut groups) = (0.0f64, 0usize);
                for g in (0..n).collect::<Vec<_>>().chunks(batch) {
                    let tnet = mk(&cur).expect("twin build");
                    let mut sum: std::collections::HashMap<(usize, usize, usize), f64> = std::collections::HashMap::new();
                    let mut lsum = 0.0f64;
                    for &si in g {
                        let (pre, post, maxp, fbs) = tnet.forward(&train.x_tensors[si]);
                        let (l, grad) = objf.loss(post.last().unwrap(), &train.t_tensors[si]);
                        lsum += l as f64;
                        let (wg, bg) = tnet.verif_backward(grad, &pre, &post, &maxp, fbs);
                        for co in cs.iter() {
                            // per-sample gradients are added in f32, as the library does
                            let gk = lib_grad_at(&tnet, &cfg, &wg, &bg, *co).expect("gradient entry") as f64;
                            let e = sum.entry(*co).or_insert(0.0);
                            *e = ((*e as f32) + gk as f32) as f64;
                        }
                    }
                    le += lsum / g.len() as f64;
                    groups += 1;
                    for li in 0..shared.len() {
                        let copies = copies_of(li);
                        for i in 0..shared[li].len() {
                            let before = shared[li][i];
                            let mut acc = 0.0f64;
                            for c in 0..copies {
                                let gsum = *sum.get(&(li, c, i)).unwrap_or(&0.0);
                                if single {
                                    let (mut w, mut stt) = (before as f32, *st32.entry((li, c, i)).or_default());
                                    model_step(&opt, epoch as i32, &mut w, gsum, &mut stt);
                                    st32.insert((li, c, i), stt);
                                    acc += w as f64;
                                } else {
                                    let (mut w, mut stt) = (before, *st64.entry((li, c, i)).or_default());
                                    model_step(&opt, epoch as i32, &mut w, gsum, &mut stt);
                                    st64.insert((li, c, i), stt);
                                    acc += w;
                                }
                            }
                            shared[li][i] = if single { ((acc as f32) / copies as f32) as f64 } else { acc / copies as f64 };
                            travel[li][i] += (shared[li][i] - before).abs();
                        }
                        let vals: Vec<f32> = shared[li].iter().map(|v| *v as f32).collect();
                        cur[li].set_flat(&vals);
                    }
                }
                losses.push(le / groups as f64);
            }
        })?;
        Ok((shared, travel, losses))
    };
    let (w, travel, tloss, wb, tloss_b, wp, tloss_p) = match (run(false, false), run(true, false), run(false, true)) {
        (Ok((w, t, l)), Ok((wb, _, lb)), Ok((wp, _, lp))) => (w, t, l, wb, lb, wp, lp),
        (Err(m), _, _) | (_, Err(m), _) | (_, _, Err(m)) => {
            out.inconclusive = Some(format!("block twin failed: {} [{}]", short(&m, 160), desc));
            return out;
        }
    };
    let tp: Vec<f64> = wp.iter().flatten().cloned().collect();
    let lib = read_params(&net, &cfg, &params);
    let lf: Vec<f32> = lib.iter().flat_map(|p| p.flat()).collect();
    let tf: Vec<f64> = w.iter().flatten().cloned().collect();
    let tb: Vec<f64> = wb.iter().flatten().cloned().collect();
    let tv: Vec<f64> = travel.iter().flatten().cloned().collect();
    let w0max = params.iter().flat_map(|p| p.flat()).fold(1.0f32, |m, v| m.max(v.abs())) as f64;
    let exploding = tf.iter().any(|v| v.abs() > 50.0 * w0max) || tloss.iter().any(|l| !(l.abs() < 1e6));
    if lf.len() != tf.len() || exploding || tf.iter().chain(tb.iter()).chain(tp.iter()).any(|v| !v.is_finite() || v.abs() > 1e15) || lf.iter().any(|v| !v.is_finite()) {
        out.nontrivial = false;
        out.count("block_twin_runs_not_judged_(diverged)", 1);
        return out;
    }
    // a run in which a start one ulp away (or f32 instead of f64 arithmetic in the twin) moves a
    // weight by more than 0.1 % amplifies rounding noise faster than any tolerance derived from
    // two samples of that noise can follow: counted, not judged
    let chaotic = (0..tf.len()).any(|k| (tf[k] - tp[k]).abs().max((tf[k] - tb[k]).abs()) > 1e-3 * tf[k].abs().max(1.0));
    if chaotic {
        out.nontrivial = false;
        out.count("block_twin_runs_not_judged_(rounding_noise_amplified_beyond_0.1_percent)", 1);
        return out;
    }
    out.count("block_twin_runs_compared", 1);
    if let LCfg::Feedback { loops, .. } = cfg.layers.iter().find(|l| matches!(l, LCfg::Feedback { .. })).unwrap() {
        out.cover("block_twin_loops_x_optimizer", format!("L{} {}", loops, opt.name()));
    }
    for k in 0..lf.len() {
        let drift = (tf[k] - tb[k]).abs();
        let sens = (tf[k] - tp[k]).abs();
        // Adam / AdamW / RMSprop divide the step by a running gradient magnitude: where a
        // gradient component is of the size of its own rounding error the step is decided by
        // that error, so the distance travelled enters with a larger factor for them
        let per_travel = if matches!(opt, OptCfg::Adam { .. } | OptCfg::AdamW { .. } | OptCfg::Rmsprop { .. }) { 2e-3 } else { 1e-4 };
        let tol = 1e-4 * tf[k].abs() + per_travel * tv[k] + 1e-6 + 8.0 * drift + 16.0 * sens;
        if (lf[k] as f64 - tf[k]).abs() > tol {
            out.viol(
                &format!("train:block-twin:weights:{}", opt.name()),
                format!("after learn() parameter {} is {:e}; one {} step per unrolled copy on the sum of its gradients followed by mean coupling gives {:e} (tolerance {:e}) [{}]", k, lf[k], opt.name(), tf[k], tol, desc),
                detail(),
            );
            break;
        }
    }
    for e in 0..epochs.min(tl.len()) {
        let tol = 1e-4 * tloss[e].abs() + 1e-6 + 8.0 * (tloss[e] - tloss_b[e]).abs() + 16.0 * (tloss[e] - tloss_p[e]).abs();
        if (tl[e] as f64 - tloss[e]).abs() > tol {
            out.viol("train:block-twin:epoch-loss", format!("epoch {}: reported training loss {:e}, twin {:e} [{}]", e + 1, tl[e], tloss[e], desc), detail());
            break;
        }
    }
    out
}

/// A feedback block with ONE loop and no internal skips is its body applied once; its update is
/// one optimizer step per body layer (mean coupling over a single copy is the identity). The
/// same layers placed directly in the network are trained by Network::update, which the twin
/// trainer of `runs` covers. Both networks, given the same parameters, data and (stateful)
/// optimizer, must therefore arrive at the same weights - whatever the block does with
/// optimizer slots, step numbers or accumulators.
fn block_inline(seed: u64, idx: u64) -> Out {
    block_inline_with(seed, idx, false)
}

/// `sentinel`: some hyper-parameters are given as 0, the value `Optimizer::validate` replaces
/// by a default - whatever the default is, it must be the same for the layers of a block as for
/// top-level layers (run under C03).
pub fn block_inline_with(seed: u64, idx: u64, sentinel: bool) -> Out {
    let mut rng = Rng::stream(seed, "block_inline", idx);
    let acts = [Act::Tanh, Act::Sigmoid, Act::Linear, Act::Leaky];
    let kind = (idx % 2) as usize;
    let depth = rng.range(2, 4);
    let inline = chain(&mut rng, kind, depth, &acts, false, true);
    let mut out = Out::new(String::new());
    let shapes = match inline.shapes() {
        Ok(s) => s,
        Err(_) => {
            out.nontrivial = false;
            return out;
        }
    };
    // wrap one shape-preserving layer (not the output layer, not right after a flat/spatial switch)
    let cands: Vec<usize> = (0..inline.layers.len() - 1).filter(|i| shapes[*i].0 == shapes[*i].1 && !shapes[*i].2 && !(*i > 0 && shapes[*i - 1].1.is_flat() != shapes[*i].0.is_flat())).collect();
    if cands.is_empty() {
        out.nontrivial = false;
        return out;
    }
    let at = *rng.pick(&cands);
    let mut blocked = inline.clone();
    blocked.layers[at] = LCfg::Feedback { body: vec![inline.layers[at].clone()], loops: 1, inskips: false, outskips: false, acc: Acc::Mean };
    let mut opt = gen_optimizer(&mut rng, ((idx / 2) % 5) as usize);
    if sentinel {
        // a random non-empty subset of the hyper-parameters that have a default
        let mask = rng.range(1, 15);
        match &mut opt {
            OptCfg::Sgd { lr, .. } => *lr = 0.0,
            OptCfg::Sgdm { lr, momentum, .. } => {
                if mask & 1 == 1 || mask & 2 == 0 {
                    *lr = 0.0;
                }
                if mask & 2 == 2 {
                    *momentum = 0.0;
                }
            }
            OptCfg::Adam { lr, b1, b2, eps, .. } | OptCfg::AdamW { lr, b1, b2, eps, .. } => {
                if mask & 1 == 1 {
                    *lr = 0.0;
                }
                if mask & 2 == 2 {
                    *b1 = 0.0;
                }
                if mask & 4 == 4 {
                    *b2 = 0.0;
                }
                if mask & 8 == 8 {
                    *eps = 0.0;
                }
            }
            OptCfg::Rmsprop { lr, alpha, eps, .. } => {
                if mask & 1 == 1 || mask & 6 == 0 {
                    *lr = 0.0;
                }
                if mask & 2 == 2 {
                    *alpha = 0.0;
                }
                if mask & 4 == 4 {
                    *eps = 0.0;
                }
            }
        }
    }
    let outputs = match inline.layers.last().unwrap() {
        LCfg::Dense { n, .. } => *n,
        _ => 1,
    };
    let n = rng.range(2, 7);
    let batch = rng.range(1, n);
    let epochs = rng.range(1, 3);
    let params = gen_params(&inline, &mut rng, -0.8, 0.8).unwrap();
    let mut params_b = params.clone();
    params_b[at] = P::Block(vec![params[at].clone()]);
    let train = random_data(&mut rng, inline.input, n, outputs, Obj::MSE, false);
    let desc = format!("{} | layer {} as a one-loop block | {} | N{} B{} E{}", inline.describe(), at, opt.describe(), n, batch, epochs);
    out.key = desc.clone();
    let mk = |cfg: &NetCfg, p: &[P]| -> Result<Network, String> {
        let mut net = build(cfg, Some(p))?;
        net.set_objective(lib_obj(Obj::MSE), None);
        net.set_optimizer(opt.build());
        Ok(net)
    };
    let (mut a, mut b) = match (mk(&inline, &params), mk(&blocked, &params_b)) {
        (Ok(a), Ok(b)) => (a, b),
        _ => {
            out.nontrivial = false;
            out.count("block_inline_pairs_rejected_by_the_library", 1);
            return out;
        }
    };
    let (xr, tr) = (train.x_refs(), train.t_refs());
    let (ra, _) = in_cached_pool(2, || guard(|| a.learn(&xr, &tr, None, batch, epochs as i32, None)));
    let (rb, _) = in_cached_pool(2, || guard(|| b.learn(&xr, &tr, None, batch, epochs as i32, None)));
    let detail = || J::obj().set("case", J::s(&desc)).set("parameters", params_json(&params));
    match (ra, rb) {
        (Err(_), Err(_)) => {
            out.nontrivial = false;
        }
        (Ok(_), Err(m)) | (Err(m), Ok(_)) => {
            if m.contains("Loss is NaN") {
                out.nontrivial = false;
            } else {
                out.viol("train:block-inline:one-variant-panics", format!("the same layers inline and as a one-loop block: only one training run panics: {} [{}]", short(&m, 160), desc), detail());
            }
        }
        (Ok((tla, _, _)), Ok((tlb, _, _))) => {
            let w0: Vec<f32> = params.iter().flat_map(|p| p.flat()).collect();
            let fa: Vec<f32> = get_params(&a).iter().flat_map(|(_, v)| v.clone()).collect();
            let fb: Vec<f32> = get_params(&b).iter().flat_map(|(_, v)| v.clone()).collect();
            if fa.len() != fb.len() || fa.len() != w0.len() || fa.iter().chain(fb.iter()).any(|v| !v.is_finite() || v.abs() > 1e6) {
                out.nontrivial = false;
                out.count("block_inline_pairs_not_judged_(diverged_or_layout)", 1);
                return out;
            }
            out.count("block_inline_pairs_compared", 1);
            out.cover("block_inline_optimizers", opt.name().to_string());
            if fa.iter().zip(fb.iter()).all(|(x, y)| x.to_bits() == y.to_bits()) {
                out.count("block_inline_pairs_bit_identical", 1);
            }
            let scale = fa.iter().zip(w0.iter()).map(|(x, w)| (x - w).abs()).fold(0.0f32, f32::max) as f64;
            for k in 0..fa.len() {
                let tol = 1e-3 * ((fa[k].abs() as f64) + scale) + 1e-6;
                if (fa[k] as f64 - fb[k] as f64).abs() > tol {
                    out.viol(
                        &format!("train:block-inline:weights:{}", opt.name()),
                        format!("parameter {} after training: {:e} with the layers inline, {:e} with layer {} wrapped into a one-loop block (tolerance {:e}) [{}]", k, fa[k], fb[k], at, tol, desc),
                        detail(),
                    );
                    break;
                }
            }
            for e in 0..tla.len().min(tlb.len()) {
                if (tla[e] as f64 - tlb[e] as f64).abs() > 1e-3 * (tla[e].abs() as f64) + 1e-6 {
                    out.viol("train:block-inline:epoch-loss", format!("epoch {}: training loss {:e} inline, {:e} with the one-loop block [{}]", e + 1, tla[e], tlb[e], desc), detail());
                    break;
                }
            }
        }
    }
    out
}

impl Monitor for C04 {
    fn id(&self) -> &'static str {
        "C04"
    }
    fn gens(&self, tier: Tier) -> Vec<(&'static str, u64)> {
        vec![("runs", tier.pick(21_000, 420_000)), ("exact_fit", tier.pick(6_000, 120_000)), ("big_batches", tier.pick(600, 12_000)), ("split_runs", tier.pick(9_000, 180_000)), ("block_inline", tier.pick(9_000, 180_000)), ("block_twin", tier.pick(6_000, 120_000))]
    }
    fn rule(&self) -> &'static str {
        "case i -> objective (i mod 7), optimizer kind (i/7 mod 5: SGD, SGDM, Adam, AdamW, RMSprop with random decay / dampening / momentum / centred), N in 1..23, B from {1,2,3,5,7,N-1,N,N+1, one of 64 / 1000 / usize::MAX/2 / usize::MAX-3 / usize::MAX} (so B=1, B not dividing N and B>N occur in every block of nine cases), E in 1..5, validation data in every second case, the objective gradient clamped in every fifth case, 6..12 epochs in every ninth, a loop connection (1..2 iterations, add / mean, gradient scaling 1/x or 1/sqrt(x): part of the per-sample gradient, not of the step) over a shape-preserving range of layers in every fifth, a print frequency of 1 / 2 / 3 / 5 epochs in every fourth (what learn() does and returns must not depend on it), pools of 1..8 threads; random network of dense/conv/deconv/max-pool layers ending in a dense layer, pairwise different samples. (a) the hooked Forward/Update event log of the learn() call (and, in every third case, of a second learn() call on the same network, with another batch size and only a prefix of the samples; the twin trainer of (b) goes through both calls, carrying the optimizer state over, and the weights after the second call are compared as well; in every second of these cases a newly created optimizer of the same kind with half the learning rate is installed between the calls and the twin starts the second call from fresh optimizer state) must match the trace grammar: per epoch the consecutive groups of B samples, each sample's forward pass exactly once and all before the group's single Update, Update step number = epoch index, then every validation sample once; nothing else. (b) a twin trainer recomputes the run: per-sample gradients from the library's own forward + hooked backward at the twin's weights, summed in sample order, one step of the documented update rule per group; final weights must agree within 1e-4 x (|w| + distance travelled) + 1e-6 and the per-epoch loss must equal the mean over groups of the mean per-sample loss. big_batches: the same two checks with N in {65,66,70,100,127..130,150,200,257} and B in {N, N-1, 64, 65, 70, 100, 128, 129, random 65..N} (groups larger than the library's parallel chunk of 64, mostly not a multiple of it), small networks. exact_fit: the same two checks on dense networks whose first layer is a ReLU layer with positive weights and negative bias followed by bias-free layers, with runs of samples that are fitted exactly (negative inputs, zero targets: loss 0, gradient 0) between ordinary samples, objectives AE / MAE / MSE: a group whose samples are all fitted exactly still receives its optimizer step (momentum, moment estimates and weight decay keep acting). split_runs: architectures the twin does not model (feedback blocks with and without bias, a skip or a loop connection), plain SGD with and without decay: one learn() call over G groups and E epochs must leave bit-identical weights to E*G learn() calls of one group each on an identically built network, and report the mean of those calls' losses per epoch (nothing is carried from one group to the next). block_twin: chain networks with one feedback block (mean coupling, no internal skips, 1..4 loops, all five optimizers): the twin lets every unrolled copy take one step of the documented rule on the sum of its own per-sample gradients (own state per copy) and couples the copies by the arithmetic mean; final weights and epoch losses as in `runs`, the tolerance additionally loosened by the sensitivity of the run (distance to a twin started one ulp away) and, for the optimizers that normalise the step by a running gradient magnitude, 2e-3 instead of 1e-4 of the distance travelled; runs whose weights grow beyond 50x the initial scale or whose loss exceeds 1e6, and runs in which the one-ulp twin or the f32 twin ends more than 0.1 % away from the f64 twin (rounding noise amplified), are counted, not judged. block_inline: a chain network and the same network with one shape-preserving layer wrapped into a feedback block of ONE loop (no internal skips) are trained with the same data and the same optimizer (all five kinds, stateful ones included): final weights and epoch losses must agree (1e-3 relative to the weight change; bit-identical pairs are counted). Distinct = distinct (network, optimizer, N, B, E) descriptors."
    }
    fn assumptions(&self) -> Vec<&'static str> {
        vec![
            "event hooks sit at the entry of Network::forward and Network::update; rayon's collect() joins a group's tasks before the update, which is the happens-before the trace checker relies on",
            "the twin uses the library's own per-sample gradient (C01 decides whether that gradient is right)",
            "feedback blocks are exercised by C10 (coupling) and are not part of the twin trainer; they are covered by the split_runs equivalence instead",
        ]
    }
    fn run(&self, gen: &str, seed: u64, idx: u64, _tier: Tier) -> Out {
        if gen == "split_runs" {
            return split_runs(seed, idx);
        }
        if gen == "block_inline" {
            return block_inline(seed, idx);
        }
        if gen == "block_twin" {
            return block_twin(seed, idx);
        }
        let mut rng = Rng::stream(seed, gen, idx);
        let exact = gen == "exact_fit";
        let out_big = std::cell::Cell::new(false);
        let obj = if exact { [Obj::AE, Obj::MAE, Obj::MSE][(idx % 3) as usize] } else { OBJS[(idx % 7) as usize] };
        let opt = gen_optimizer(&mut rng, ((idx / 7) % 5) as usize);
        let big = gen == "big_batches";
        let n = if big { *rng.pick(&[65usize, 66, 70, 100, 127, 128, 129, 130, 150, 200, 257]) } else { 1 + ((idx / 35) % 23) as usize };
        let bsel = ((idx / 3) % 9) as usize;
        let batch = if big {
            // groups larger than the library's parallel chunk of 64, mostly not a multiple of it
            match bsel {
                0 => n,
                1 => n - 1,
                2 => 65,
                3 => 70,
                4 => 100,
                5 => 128,
                6 => 129,
                7 => 64,
                _ => rng.range(65, n),
            }
        } else {
            match bsel {
            0 => 1,
            1 => 2,
            2 => 3,
            3 => 5,
            4 => 7,
            5 => n.saturating_sub(1).max(1),
            6 => n,
            7 => n + 1,
            // far above N: 64, and values up to usize::MAX ("one group, whatever the size")
            _ => *rng.pick(&[64usize, 64, 1000, usize::MAX / 2, usize::MAX - 3, usize::MAX]),
            }
        };
        // mostly 1..5 epochs, every ninth case up to 12 (later epochs behave like the first ones)
        let epochs = if big { rng.range(1, 2) } else if idx % 9 == 7 { rng.range(6, 12) } else { rng.range(1, 5) };
        // every fifth case clamps the objective gradient (the twin uses the same objective)
        let clamp: Option<(f32, f32)> = if idx % 5 == 3 { Some(*rng.pick(&[(-0.5f32, 0.5f32), (-0.05, 0.05), (0.0, 1.0), (-1.0, f32::INFINITY)])) } else { None };
        let with_val = idx % 2 == 0;
        let tolerance: i32 = if idx % 10 == 4 { 1 } else if idx % 10 == 8 { 2 } else { 100 };
        let threads = *rng.pick(&[1usize, 2, 4, 8]);
        let softmax = obj == Obj::CE && rng.bool();
        let mut o = NetOpts::standard();
        o.max_depth = 3;
        o.min_depth = 1;
        o.max_count = if big { 12 } else { 30 };
        o.max_extent = if big { 3 } else { 5 };
        if big {
            o.max_depth = 2;
            out_big.set(true);
        }
        o.end_dense = Some(if softmax { Act::Softmax } else if obj.probabilistic() { Act::Sigmoid } else { *rng.pick(&[Act::Linear, Act::Tanh, Act::Sigmoid]) });
        let cfg = if exact {
            // first layer ReLU with positive weights and negative bias: all-negative inputs give an
            // exactly zero hidden vector, the bias-free rest maps it to exactly zero outputs
            let mut layers = vec![LCfg::Dense { n: rng.range(2, 4), act: Act::Relu, bias: true, dropout: None }];
            if rng.bool() {
                layers.push(LCfg::Dense { n: rng.range(2, 4), act: *rng.pick(&[Act::Relu, Act::Leaky, Act::Linear, Act::Tanh]), bias: false, dropout: None });
            }
            layers.push(LCfg::Dense { n: rng.range(1, 3), act: *rng.pick(&[Act::Linear, Act::Tanh]), bias: false, dropout: None });
            NetCfg::plain(Sh::Flat(rng.range(2, 4)), layers)
        } else {
            random_net(&mut rng, &o)
        };
        let outputs = match cfg.layers.last().unwrap() {
            LCfg::Dense { n, .. } => *n,
            _ => unreachable!(),
        };
        let outputs = if softmax { outputs.max(2) } else { outputs };
        let mut cfg = cfg;
        let last = cfg.layers.len() - 1;
        if let LCfg::Dense { n, .. } = &mut cfg.layers[last] {
            *n = outputs;
        }
        // every fifth case: a loop connection over a range of layers that maps a shape to itself
        // (1..2 iterations, add or mean accumulation, gradient scaling 1/x or 1/sqrt(x)). The
        // scaling is part of the per-sample gradients, which the twin takes from the library's
        // backward pass; the step must be taken on their plain sum
        if !exact && idx % 5 == 3 && last >= 1 {
            if let Ok(shapes) = cfg.shapes() {
                let mut ranges: Vec<(usize, usize)> = Vec::new();
                for a in 0..last {
                    for b in a..last.min(a + 2) {
                        if shapes[a].0 == shapes[b].1 && !(a..=b).any(|i| matches!(cfg.layers[i], LCfg::Feedback { .. })) {
                            ranges.push((a, b));
                        }
                    }
                }
                if !ranges.is_empty() {
                    let (a, b) = *rng.pick(&ranges);
                    cfg.loops = vec![(b, a, rng.range(1, 2), false)];
                    cfg.loopacc = *rng.pick(&[Acc::Add, Acc::Mean]);
                    cfg.loopscale = *rng.pick(&[0usize, 2]);
                    if cfg.shapes().is_err() {
                        cfg.loops.clear();
                    }
                }
            }
        }
        let with_loop = !cfg.loops.is_empty();
        let mut params = gen_params(&cfg, &mut rng, -0.8, 0.8).unwrap();
        let mut train = random_data(&mut rng, cfg.input, n, outputs, obj, softmax);
        if exact {
            if let P::Dense { w, b } = &mut params[0] {
                for row in w.iter_mut() {
                    for v in row.iter_mut() {
                        *v = rng.f32_in(0.1, 0.8);
                    }
                }
                if let Some(b) = b {
                    for v in b.iter_mut() {
                        *v = rng.f32_in(-0.5, -0.1);
                    }
                }
            }
            // runs of exactly fitted samples (negative inputs, zero targets) between ordinary ones
            let (mut xs, mut ts) = (train.xs.clone(), train.ts.clone());
            let mut dead = rng.bool();
            for i in 0..n {
                if rng.chance(0.35) {
                    dead = !dead;
                }
                if dead {
                    for v in xs[i].iter_mut() {
                        *v = -rng.f32_in(0.1, 1.5);
                    }
                    for v in ts[i].iter_mut() {
                        *v = 0.0;
                    }
                } else {
                    for v in xs[i].iter_mut() {
                        *v = rng.f32_in(0.3, 1.5);
                    }
                }
            }
            train = DataSet::new(cfg.input, xs, ts);
        }
        let nv = rng.range(1, 6);
        let mut val = random_data(&mut rng, cfg.input, nv, outputs, obj, softmax);
        // validation inputs must differ from training inputs (tags identify samples)
        for x in val.xs.iter_mut() {
            x[0] += 3.0;
        }
        let val = DataSet::new(val.sh, val.xs.clone(), val.ts.clone());
        let desc = format!("{} | {} | {}{} | N{} B{} E{} val{} threads{}", cfg.describe(), opt.describe(), obj.name(), clamp.map(|c| format!(" clamp{:?}", c)).unwrap_or_default(), n, batch, epochs, if with_val { nv } else { 0 }, threads);
        let mut out = Out::new(desc.clone());
        if out_big.get() {
            out.count("runs_with_groups_larger_than_64_samples", 1);
        }
        out.cover("n_b_relation", format!("{}", if batch == 1 { "B=1" } else if batch > n { "B>N" } else if n % batch == 0 { "B|N" } else { "B not dividing N" }));
        out.cover("optimizer_x_objective", format!("{}/{}", opt.name(), obj.name()));
        out.cover("architectures", cfg.architecture());
        let detail = || J::obj().set("case", J::s(&desc)).set("parameters", params_json(&params)).set("train_inputs", J::Arr(train.xs.iter().map(|x| J::f32s(x)).collect())).set("train_targets", J::Arr(train.ts.iter().map(|x| J::f32s(x)).collect()));

        let build_net = |p: &[P]| -> Result<Network, String> {
            let mut net = build(&cfg, Some(p))?;
            net.set_objective(lib_obj(obj), clamp);
            Ok(net)
        };
        let mut net = match build_net(&params) {
            Ok(n) => n,
            Err(m) => {
                out.viol("train:create-panic", format!("building {} panicked: {}", cfg.describe(), short(&m, 160)), detail());
                return out;
            }
        };
        net.set_optimizer(opt.build());
        let (xr, tr) = (train.x_refs(), train.t_refs());
        let (vxr, vtr) = (val.x_refs(), val.t_refs());
        // every fourth case asks for progress lines every 1 / 2 / 3 / 5 epochs (the console output
        // goes to the monitor's log; what learn() does and returns must not depend on it)
        let print: Option<i32> = if idx % 4 == 2 { Some([1, 2, 3, 5][((idx / 4) % 4) as usize]) } else { None };
        let (res, events) = in_cached_pool(threads, || {
            guard(|| {
                let validation: Option<(&Vec<&Tensor>, &Vec<&Tensor>, i32)> = if with_val { Some((&vxr, &vtr, tolerance)) } else { None };
                net.learn(&xr, &tr, validation, batch, epochs as i32, print)
            })
        });
        if print.is_some() {
            out.count("runs_with_a_print_frequency", 1);
        }
        if with_loop {
            out.count("runs_on_networks_with_a_loop_connection", 1);
        }
        let (tl, vl, _va) = match res {
            Ok(r) => r,
            Err(m) => {
                if m.contains("Loss is NaN") {
                    out.nontrivial = false;
                    out.count("runs_aborted_by_the_documented_NaN_loss_panic", 1);
                } else {
                    // a diverging run (non-finite weights) makes arg-max / comparisons panic inside
                    // validate(); the reference trainer tells whether the run diverges
                    let objf = objective::Function::create(lib_obj(obj), clamp);
                    let mut cur = params.clone();
                    let mut diverged = false;
                    let mut pst: Vec<Vec<St<f32>>> = params.iter().map(|p| vec![St::default(); p.count()]).collect();
                    let probe = guard(|| {
                        'outer: for epoch in 1..=epochs {
                            for g in (0..n).collect::<Vec<_>>().chunks(batch) {
                                let tnet = build_net(&cur).expect("twin build");
                                let mut sum: Vec<Vec<f32>> = Vec::new();
                                for &si in g {
                                    let (pre, post, maxp, fbs) = tnet.forward(&train.x_tensors[si]);
                                    let (l, grad) = objf.loss(post.last().unwrap(), &train.t_tensors[si]);
                                    if !l.is_finite() {
                                        diverged = true;
                                        break 'outer;
                                    }
                                    let (wg, bg) = tnet.verif_backward(grad, &pre, &post, &maxp, fbs);
                                    let gf = grads_flat(&tnet, &wg, &bg);
                                    if sum.is_empty() {
                                        sum = gf;
                                    } else {
                                        for (a, b) in sum.iter_mut().zip(gf.iter()) {
                                            for (x, y) in a.iter_mut().zip(b.iter()) {
                                                *x += *y;
                                            }
                                        }
                                    }
                                }
                                for li in 0..cur.len() {
                                    let mut vals = cur[li].flat();
                                    for k in 0..vals.len() {
                                        model_step(&opt, epoch as i32, &mut vals[k], sum[li][k] as f64, &mut pst[li][k]);
                                        if !vals[k].is_finite() || vals[k].abs() > 1e15 {
                                            diverged = true;
                                        }
                                    }
                                    cur[li].set_flat(&vals);
                                }
                                if diverged {
                                    break 'outer;
                                }
                            }
                            // the validation pass of the epoch: non-finite predictions (which make the
                            // arg-max / comparisons inside validate() panic) are a divergence as well
                            if with_val {
                                let tnet = build_net(&cur).expect("twin build");
                                for vx in val.x_tensors.iter() {
                                    if flat(&tnet.predict(vx)).iter().any(|v| !v.is_finite()) {
                                        diverged = true;
                                        break 'outer;
                                    }
                                }
                            }
                        }
                    });
                    if diverged || probe.is_err() {
                        out.nontrivial = false;
                        out.count("runs_that_diverge_to_non_finite_values_not_judged", 1);
                    } else {
                        out.viol("train:learn-panic", format!("learn panicked: {} [{}]", short(&m, 160), desc), detail());
                    }
                }
                return out;
            }
        };
        out.count("learn_runs", 1);
        out.count("events_checked", events.len() as u64);
        // early stopping (decided by C13) may end the run before the budget; everything below
        // refers to the epochs actually run
        let may_stop = with_val && tolerance < 100;
        if (tl.len() != epochs && !(may_stop && !tl.is_empty() && tl.len() < epochs)) || (with_val && vl.len() != tl.len()) {
            out.viol("train:epochs", format!("{} training-loss entries for {} epochs [{}]", tl.len(), epochs, desc), detail());
            return out;
        }
        let epochs = tl.len();
        if may_stop {
            out.count("runs_with_small_early_stopping_tolerance", 1);
        }
        // (a) trace grammar
        let ttags = train.tags();
        let vtags = val.tags();
        if let Err((sig, what)) = check_trace(&events, &ttags, if with_val { Some(&vtags) } else { None }, batch, epochs) {
            out.viol(&sig, format!("{} [{}]", what, desc), detail());
        } else {
            out.count("traces_matching_the_grammar", 1);
        }
        // (b) twin trainers. A: documented update rule in f64; B: the same rule in f32. Both take
        // the library's own per-sample gradients at their own weights. Where A and B drift apart
        // (sign-like objective gradients, kinks, normalising optimizers fed with rounding noise)
        // the dynamics amplify rounding and the comparison is loosened by that drift.
        let objf = objective::Function::create(lib_obj(obj), clamp);
        let fitted_groups = std::cell::Cell::new(0u64);
        let fitted_after_first = std::cell::Cell::new(0u64);
        // `calls`: the learn() calls made on the network so far, each (samples used = the first m,
        // batch size, epochs): weights AND optimizer state carry over from call to call, the step
        // number restarts at 1 with every call (it is the epoch index of that call)
        // `opt_second`: when set, a new optimizer (same kind, learning rate halved) is installed with
        // set_optimizer before the second call - the twin then starts that call from fresh state
        let opt_second: std::cell::RefCell<Option<OptCfg>> = std::cell::RefCell::new(None);
        let run_twin = |single: bool, calls: &[(usize, usize, usize)]| -> Result<(Vec<Vec<f64>>, Vec<Vec<f64>>, Vec<f64>), String> {
            let mut w: Vec<Vec<f64>> = params.iter().map(|p| p.flat().iter().map(|v| *v as f64).collect()).collect();
            let mut st: Vec<Vec<St<f64>>> = w.iter().map(|l| vec![St::default(); l.len()]).collect();
            let mut st32: Vec<Vec<St<f32>>> = w.iter().map(|l| vec![St::default(); l.len()]).collect();
            let mut travel: Vec<Vec<f64>> = w.iter().map(|l| vec![0.0; l.len()]).collect();
            let mut twin_loss: Vec<f64> = Vec::new();
            let mut cur = params.clone();
            guard(|| {
              for (call, (n, batch, epochs)) in calls.iter().cloned().enumerate() {
                twin_loss.clear();
                let mut opt = opt.clone();
                if call == 1 {
                    if let Some(o) = opt_second.borrow().clone() {
                        opt = o;
                        st = w.iter().map(|l| vec![St::default(); l.len()]).collect();
                        st32 = w.iter().map(|l| vec![St::default(); l.len()]).collect();
                    }
                }
                for epoch in 1..=epochs {
                    let mut loss_epoch = 0.0f64;
                    let mut groups = 0usize;
                    for g in (0..n).collect::<Vec<_>>().chunks(batch) {
                        let tnet = build_net(&cur).expect("twin build");
                        let mut sum: Vec<Vec<f32>> = Vec::new();
                        let mut lsum = 0.0f64;
                        for &si in g {
                            let (pre, post, maxp, fbs) = tnet.forward(&train.x_tensors[si]);
                            let (l, grad) = objf.loss(post.last().unwrap(), &train.t_tensors[si]);
                            lsum += l as f64;
                            let (wg, bg) = tnet.verif_backward(grad, &pre, &post, &maxp, fbs);
                            let gf = grads_flat(&tnet, &wg, &bg);
                            if sum.is_empty() {
                                sum = gf;
                            } else {
                                for (a, b) in sum.iter_mut().zip(gf.iter()) {
                                    for (x, y) in a.iter_mut().zip(b.iter()) {
                                        *x += *y;
                                    }
                                }
                            }
                        }
                        loss_epoch += lsum / g.len() as f64;
                        groups += 1;
                        if !single && call == 0 && calls.len() == 1 && lsum == 0.0 && sum.iter().all(|l| l.iter().all(|v| *v == 0.0)) {
                            fitted_groups.set(fitted_groups.get() + 1);
                            if epoch > 1 || g[0] > 0 {
                                fitted_after_first.set(fitted_after_first.get() + 1);
                            }
                        }
                        for li in 0..w.len() {
                            for k in 0..w[li].len() {
                                let before = w[li][k];
                                if single {
                                    let (mut wk, mut sk) = (w[li][k] as f32, st32[li][k]);
                                    model_step(&opt, epoch as i32, &mut wk, sum[li][k] as f64, &mut sk);
                                    w[li][k] = wk as f64;
                                    st32[li][k] = sk;
                                } else {
                                    let (mut wk, mut sk) = (w[li][k], st[li][k]);
                                    model_step(&opt, epoch as i32, &mut wk, sum[li][k] as f64, &mut sk);
                                    w[li][k] = wk;
                                    st[li][k] = sk;
                                }
                                travel[li][k] += (w[li][k] - before).abs();
                            }
                            let vals: Vec<f32> = w[li].iter().map(|v| *v as f32).collect();
                            cur[li].set_flat(&vals);
                        }
                    }
                    twin_loss.push(loss_epoch / groups as f64);
                }
              }
            })?;
            Ok((w, travel, twin_loss))
        };
        let (w, travel, twin_loss, wb, twin_loss_b) = match (run_twin(false, &[(n, batch, epochs)]), run_twin(true, &[(n, batch, epochs)])) {
            (Ok((w, t, l)), Ok((wb, _, lb))) => (w, t, l, wb, lb),
            (Err(m), _) | (_, Err(m)) => {
                out.inconclusive = Some(format!("twin trainer failed: {} [{}]", short(&m, 200), desc));
                return out;
            }
        };
        out.count("groups_whose_samples_are_all_fitted_exactly_(zero_loss_zero_gradient)", fitted_groups.get());
        out.count("exactly_fitted_groups_after_the_optimizer_state_may_be_non_zero", fitted_after_first.get());
        // compare final weights
        let finalp = get_params(&net);
        let mut lib_flat: Vec<f32> = Vec::new();
        for (_, v) in finalp.iter() {
            lib_flat.extend(v);
        }
        let twin_flat: Vec<f64> = w.iter().flatten().cloned().collect();
        let trav_flat: Vec<f64> = travel.iter().flatten().cloned().collect();
        let twin_b_flat: Vec<f64> = wb.iter().flatten().cloned().collect();
        let drift = |k: usize| -> f64 {
            let d = (twin_flat[k] - twin_b_flat[k]).abs();
            if d.is_finite() {
                d
            } else {
                f64::INFINITY
            }
        };
        let max_drift = (0..twin_flat.len()).map(|k| drift(k) / (twin_flat[k].abs() + trav_flat[k] + 1e-3)).fold(0.0, f64::max);
        if max_drift > 1e-3 {
            out.count("runs_whose_dynamics_amplify_rounding_(twins_drift_apart)_weights_judged_loosely", 1);
        }
        if lib_flat.len() != twin_flat.len() {
            out.inconclusive = Some("parameter count mismatch between library and twin".into());
            return out;
        }
        let huge = twin_flat.iter().chain(twin_b_flat.iter()).any(|v| !v.is_finite() || v.abs() > 1e15) || twin_loss.iter().chain(twin_loss_b.iter()).any(|v| !v.is_finite() || v.abs() > 1e30);
        if huge {
            out.nontrivial = false;
            out.count("runs_that_diverge_to_non_finite_values_not_judged", 1);
            return out;
        }
        let mut bit_equal = true;
        for k in 0..lib_flat.len() {
            if (twin_flat[k] as f32).to_bits() != lib_flat[k].to_bits() {
                bit_equal = false;
            }
            let tol = 1e-4 * (twin_flat[k].abs() + trav_flat[k]) + 1e-6 + 8.0 * drift(k);
            if !lib_flat[k].is_finite() && twin_flat[k].is_finite() || (lib_flat[k] as f64 - twin_flat[k]).abs() > tol {
                out.viol(
                    &format!("train:weights:{}", opt.name()),
                    format!("after learn() parameter {} is {:e}; ordered mini-batch gradient-sum descent with one {} step per group gives {:e} (tolerance {:e}) [{}]", k, lib_flat[k], opt.name(), twin_flat[k], tol, desc),
                    detail(),
                );
                break;
            }
        }
        if bit_equal {
            out.count("runs_where_f32_rounding_of_the_twin_equals_the_library_bit_for_bit", 1);
        }
        for e in 0..epochs {
            let tol = 1e-4 * twin_loss[e].abs() + 1e-6 + 8.0 * (twin_loss[e] - twin_loss_b[e]).abs();
            if (tl[e] as f64 - twin_loss[e]).abs() > tol {
                out.viol("train:epoch-loss", format!("epoch {}: reported training loss {:e}, mean over groups of the mean per-sample loss {:e} [{}]", e + 1, tl[e], twin_loss[e], desc), detail());
                break;
            }
        }
        // a second learn() call on the same network: the grammar (groups, exactly-once, step
        // number = epoch index of THAT call) must hold again
        if idx % 3 == 0 {
            let e2 = rng.range(1, 3);
            // other batch size and only the first m samples: nothing sized by the first call
            // may survive into the second
            let m = rng.range(1, n);
            let b2 = if rng.bool() { batch } else { rng.range(1, m + 1) };
            let (xr2, tr2): (Vec<&Tensor>, Vec<&Tensor>) = (xr[..m].to_vec(), tr[..m].to_vec());
            // every second of these cases: a freshly created optimizer of the same kind (learning
            // rate halved) is installed between the calls; nothing of the replaced optimizer's
            // state may survive in it
            if idx % 6 == 3 {
                let o2 = halved(&opt);
                net.set_optimizer(o2.build());
                *opt_second.borrow_mut() = Some(o2);
                out.count("second_learn_calls_after_installing_a_new_optimizer", 1);
            }
            let (res2, events2) = in_cached_pool(threads, || guard(|| net.learn(&xr2, &tr2, None, b2, e2 as i32, None)));
            match res2 {
                Ok((tl2, _, _)) => {
                    out.count("second_learn_calls_trace_checked", 1);
                    if tl2.len() != e2 {
                        out.viol("train:epochs", format!("second learn() call: {} training-loss entries for {} epochs [{}]", tl2.len(), e2, desc), detail());
                    } else if let Err((sig, what)) = check_trace(&events2, &ttags[..m], None, b2, e2) {
                        out.viol(&format!("{}:second-call", sig), format!("second learn() call on the same network: {} [{}]", what, desc), detail());
                    }
                    // the twin goes through both calls: the optimizer state left by the first
                    // call is what the second call continues from
                    if tl2.len() == e2 && epochs == tl.len() && !may_stop {
                        let calls = [(n, batch, epochs), (m, b2, e2)];
                        if let (Ok((w2, t2, l2)), Ok((w2b, _, l2b))) = (run_twin(false, &calls), run_twin(true, &calls)) {
                            let lib2: Vec<f32> = get_params(&net).iter().flat_map(|(_, v)| v.clone()).collect();
                            let tw: Vec<f64> = w2.iter().flatten().cloned().collect();
                            let twb: Vec<f64> = w2b.iter().flatten().cloned().collect();
                            let tv: Vec<f64> = t2.iter().flatten().cloned().collect();
                            let wild = tw.iter().chain(twb.iter()).any(|v| !v.is_finite() || v.abs() > 1e15) || l2.iter().chain(l2b.iter()).any(|v| !v.is_finite() || v.abs() > 1e30) || lib2.iter().any(|v| !v.is_finite());
                            if !wild && lib2.len() == tw.len() {
                                out.count("second_learn_calls_compared_with_the_twin_(state_carried_over)", 1);
                                for k in 0..lib2.len() {
                                    let tol = 1e-4 * (tw[k].abs() + tv[k]) + 1e-6 + 8.0 * (tw[k] - twb[k]).abs();
                                    if (lib2[k] as f64 - tw[k]).abs() > tol {
                                        out.viol(
                                            &format!("train:weights:second-call:{}", opt.name()),
                                            format!("after a second learn() call (first {} samples, batch {}, {} epochs{}) parameter {} is {:e}; the twin, {}, gives {:e} (tolerance {:e}) [{}]", m, b2, e2, if opt_second.borrow().is_some() { ", a new optimizer with half the learning rate installed before it" } else { "" }, k, lib2[k], if opt_second.borrow().is_some() { "starting the new optimizer from fresh state" } else { "continuing with the optimizer state the first call left" }, tw[k], tol, desc),
                                            detail(),
                                        );
                                        break;
                                    }
                                }
                            }
                        }
                    }
                }
                Err(m) => {
                    if !m.contains("Loss is NaN") && !m.contains("Option::unwrap") {
                        out.viol("train:learn-panic", format!("second learn() call panicked: {} [{}]", short(&m, 160), desc), detail());
                    }
                }
            }
        }
        if idx < 3 {
            out.sample = Some(detail().set("events", J::Int(events.len() as i64)).set("train_loss", J::f32s(&tl)));
        }
        out
    }
    fn finish(&self, _tier: Tier, _seed: u64, agg: &mut Agg) {
        agg.require(agg.set_size("n_b_relation") == 4, "N/B relations not all exercised".into());
        agg.require(agg.set_size("optimizer_x_objective") == 35, format!("{} of 35 optimizer x objective combinations", agg.set_size("optimizer_x_objective")));
        agg.require(agg.count("exactly_fitted_groups_after_the_optimizer_state_may_be_non_zero") >= 500, "too few exactly fitted groups".into());
        agg.require(agg.count("block_twin_runs_compared") >= 1500, "too few block twin runs".into());
        agg.require(agg.count("block_inline_pairs_compared") >= 2000, "too few block/inline pairs".into());
        agg.require(agg.count("split_run_pairs_compared") >= 2000, "too few split-run pairs".into());
        agg.require(agg.count("runs_with_groups_larger_than_64_samples") >= 300, "too few runs with large groups".into());
        agg.require(agg.count("learn_runs") >= 1500, format!("{} learn runs judged", agg.count("learn_runs")));
    }
}
