//! C14 — reshaping and flattening preserve the row-major element sequence.

use crate::core::*;
use crate::json::J;
use crate::lib_build::{bits_eq, flat, shape_consistent, shape_dims};
use crate::rng::Rng;
use neurons::tensor::{Data, Shape, Tensor};

pub struct C14;

fn nested(c: usize, h: usize, w: usize, vals: &[f32]) -> Vec<Vec<Vec<f32>>> {
    let mut it = vals.iter();
    (0..c).map(|_| (0..h).map(|_| (0..w).map(|_| *it.next().unwrap()).collect()).collect()).collect()
}

fn contents(rng: &mut Rng, n: usize, kind: usize) -> Vec<f32> {
    match kind {
        0 => (0..n).map(|i| i as f32).collect(),
        1 => (0..n).map(|_| rng.f32_in(-100.0, 100.0)).collect(),
        // special values, NaN and the infinities included: the element sequence is compared
        // bit pattern by bit pattern (NaN equals NaN), never by value
        _ => (0..n).map(|i| if i % 7 == 3 { *rng.pick(&[f32::NAN, f32::INFINITY, f32::NEG_INFINITY]) } else { *rng.pick(&[0.0f32, -0.0, 1e-45, -3.4e38, 3.4e38, 1.0]) + if i % 2 == 0 { 0.0 } else { i as f32 } }).collect(),
    }
}

fn check_source(c: usize, h: usize, w: usize, max_dim: usize, vals: &[f32], out: &mut Out) {
    let n = c * h * w;
    let src = format!("{}x{}x{}", c, h, w);
    let fail = |out: &mut Out, sig: &str, what: String| {
        out.viol(sig, what, J::obj().set("source", J::usizes(&[c, h, w])).set("values", J::f32s(&vals[..vals.len().min(64)])));
    };
    // construction
    let t = match guard(|| Tensor::triple(nested(c, h, w, vals))) {
        Ok(t) => t,
        Err(m) => {
            fail(out, "triple:panic", format!("Tensor::triple panicked for {}: {}", src, short(&m, 160)));
            return;
        }
    };
    if shape_dims(&t.shape) != vec![c, h, w] || !shape_consistent(&t) {
        fail(out, "triple:shape", format!("Tensor::triple of {} records shape {:?}", src, shape_dims(&t.shape)));
    }
    // flatten / get_flat
    match guard(|| t.flatten()) {
        Err(m) => fail(out, "flatten:panic", format!("flatten panicked for {}: {}", src, short(&m, 160))),
        Ok(f) => {
            if !matches!(f.data, Data::Single(_)) || shape_dims(&f.shape) != vec![n] || !shape_consistent(&f) {
                fail(out, "flatten:shape", format!("flatten of {} has shape {:?}", src, shape_dims(&f.shape)));
            }
            if !bits_eq(&flat(&f), vals) {
                fail(out, "flatten:sequence", format!("flatten of {} does not preserve the row-major sequence", src));
            }
        }
    }
    match guard(|| t.get_flat()) {
        Err(m) => fail(out, "get_flat:panic", format!("get_flat panicked for {}: {}", src, short(&m, 160))),
        Ok(f) => {
            if !bits_eq(&f, vals) {
                fail(out, "get_flat:sequence", format!("get_flat of {} does not preserve the row-major sequence", src));
            }
        }
    }
    let s = Tensor::single(vals.to_vec());
    if shape_dims(&s.shape) != vec![n] || !shape_consistent(&s) {
        fail(out, "single:shape", format!("Tensor::single of {} elements records shape {:?}", n, shape_dims(&s.shape)));
    }
    match guard(|| s.get_flat()) {
        Ok(f) if bits_eq(&f, vals) => {}
        _ => fail(out, "get_flat:sequence", format!("get_flat of a vector of {} elements changed it", n)),
    }
    match guard(|| s.flatten()) {
        Ok(f) if bits_eq(&flat(&f), vals) && shape_dims(&f.shape) == vec![n] => {}
        _ => fail(out, "flatten:sequence", format!("flatten of a vector of {} elements changed it", n)),
    }
    // vector -> vector "reshape": whatever the library does with it (keep, refuse), the recorded
    // shape of the result must match its data
    for m in [n, n + 1, n.saturating_sub(1).max(1), 2 * n] {
        if let Ok(r) = guard(|| s.clone().reshape(Shape::Single(m))) {
            let len = flat(&r).len();
            if shape_dims(&r.shape) != vec![len] || !shape_consistent(&r) {
                fail(out, "reshape:vector-to-vector:shape", format!("reshape of a vector of {} elements to a vector of {} returns {} elements under the recorded shape {:?}", n, m, len, shape_dims(&r.shape)));
            } else if len == n && !bits_eq(&flat(&r), vals) {
                fail(out, "reshape:vector-to-vector:sequence", format!("reshape of a vector of {} elements to a vector of {} changed the sequence", n, m));
            } else if len != n && len != m {
                fail(out, "reshape:vector-to-vector:count", format!("reshape of a vector of {} elements to a vector of {} holds {} elements", n, m, len));
            }
            out.count("vector_to_vector_reshapes", 1);
        }
    }
    // reading a vector out as 3-D
    let ok3 = |v: &Vec<Vec<Vec<f32>>>| v.len() == c && v.iter().all(|x| x.len() == h && x.iter().all(|r| r.len() == w)) && bits_eq(&v.iter().flatten().flatten().cloned().collect::<Vec<f32>>(), vals);
    match guard(|| s.get_triple(&Shape::Triple(c, h, w))) {
        Ok(v) if ok3(&v) => {}
        Ok(_) => fail(out, "get_triple:sequence", format!("get_triple({}) of the flat vector is not the row-major reading", src)),
        Err(m) => fail(out, "get_triple:panic", format!("get_triple({}) panicked: {}", src, short(&m, 160))),
    }
    match guard(|| t.get_triple(&Shape::Triple(c, h, w))) {
        Ok(v) if ok3(&v) => {}
        _ => fail(out, "get_triple:sequence", format!("get_triple of the 3-D tensor {} changed it", src)),
    }
    // vector <-> 3-D
    match guard(|| t.clone().reshape(Shape::Single(n))) {
        Ok(f) if bits_eq(&flat(&f), vals) && shape_dims(&f.shape) == vec![n] && shape_consistent(&f) && matches!(f.data, Data::Single(_)) => {}
        Ok(f) => fail(out, "reshape:3d-to-vector", format!("reshape {} -> {} gives shape {:?} / wrong sequence", src, n, shape_dims(&f.shape))),
        Err(m) => fail(out, "reshape:3d-to-vector:panic", format!("reshape {} -> {} panicked: {}", src, n, short(&m, 160))),
    }
    out.count("equal_count_reshapes", 1);
    // all targets
    let mut targets: Vec<(usize, usize, usize)> = Vec::new();
    for a in 1..=max_dim {
        for b in 1..=max_dim {
            for d in 1..=max_dim {
                targets.push((a, b, d));
            }
        }
    }
    for k in [n, n + 1, n.saturating_sub(1).max(1), 2 * n] {
        targets.push((1, 1, k));
        targets.push((1, k, 1));
        targets.push((k, 1, 1));
    }
    // every factorisation of n
    for a in 1..=n {
        if n % a == 0 {
            for b in 1..=n / a {
                if (n / a) % b == 0 {
                    targets.push((a, b, n / a / b));
                }
            }
        }
    }
    targets.sort();
    targets.dedup();
    for (a, b, d) in targets {
        let m = a * b * d;
        let tgt = format!("{}x{}x{}", a, b, d);
        let r3 = guard(|| t.clone().reshape(Shape::Triple(a, b, d)));
        let r1 = guard(|| s.clone().reshape(Shape::Triple(a, b, d)));
        if m == n {
            out.count("equal_count_reshapes", 2);
            for (r, from) in [(r3, src.clone()), (r1, format!("{}", n))] {
                match r {
                    Err(msg) => fail(out, "reshape:equal-count:panic", format!("reshape {} -> {} panicked: {}", from, tgt, short(&msg, 160))),
                    Ok(x) => {
                        if shape_dims(&x.shape) != vec![a, b, d] || !shape_consistent(&x) {
                            fail(out, "reshape:shape", format!("reshape {} -> {}: recorded shape {:?}, data consistent = {}", from, tgt, shape_dims(&x.shape), shape_consistent(&x)));
                        } else if !bits_eq(&flat(&x), vals) {
                            fail(out, "reshape:sequence", format!("reshape {} -> {} does not preserve the row-major sequence", from, tgt));
                        } else {
                            // there and back
                            let back = if from == src { guard(|| x.clone().reshape(Shape::Triple(c, h, w))) } else { guard(|| x.clone().reshape(Shape::Single(n))) };
                            match back {
                                Ok(y) if bits_eq(&flat(&y), vals) && shape_consistent(&y) && shape_dims(&y.shape) == (if from == src { vec![c, h, w] } else { vec![n] }) => {}
                                _ => fail(out, "reshape:roundtrip", format!("reshape {} -> {} -> back is not the identity", from, tgt)),
                            }
                        }
                    }
                }
            }
        } else {
            out.count("unequal_count_reshapes_that_must_be_refused", 3);
            if r3.is_ok() {
                fail(out, "reshape:unequal-count-accepted", format!("reshape {} -> {} ({} vs {} elements) was not refused", src, tgt, n, m));
            }
            if r1.is_ok() {
                fail(out, "reshape:unequal-count-accepted", format!("reshape vector {} -> {} ({} elements) was not refused", n, tgt, m));
            }
            if guard(|| t.clone().reshape(Shape::Single(m))).is_ok() {
                fail(out, "reshape:unequal-count-accepted", format!("reshape {} -> vector {} was not refused", src, m));
            }
        }
    }
}

/// Element counts beyond 2^24, where a count kept in single precision no longer distinguishes
/// neighbours: (source, target) pairs whose counts differ by 1..3 must be refused, pairs with
/// equal counts must be accepted and keep the sequence. One pair per case (each tensor holds
/// 64..130 MB).
fn huge_counts(idx: u64, out: &mut Out) {
    let m = 1usize << 24;
    // (source dims, target dims); a one-element list is a vector
    let pairs: Vec<(Vec<usize>, Vec<usize>)> = vec![
        (vec![m + 1], vec![1, 4096, 4096]),
        (vec![1, 4096, 4096], vec![m + 1]),
        (vec![97, 257, 673], vec![256, 256, 256]),
        (vec![256, 256, 256], vec![97, 257, 673]),
        (vec![m + 2], vec![2, 4096, 2048]),
        (vec![4, 2048, 2048], vec![m - 1]),
        (vec![m + 4], vec![4, 1024, 4097]),
        (vec![2, 4097, 2048], vec![m + 4096]),
        (vec![1, 4097, 4096], vec![m + 4096]),
        (vec![(1usize << 25) + 2], vec![2, 4096, 4096]),
        (vec![2, 4096, 4096], vec![(1usize << 25) + 3]),
        (vec![3, 4096, 4096], vec![3 * m + 2]),
    ];
    let (src, dst) = pairs[(idx as usize) % pairs.len()].clone();
    let count = |d: &Vec<usize>| d.iter().product::<usize>();
    let (ns, nd) = (count(&src), count(&dst));
    let name = |d: &Vec<usize>| d.iter().map(|x| x.to_string()).collect::<Vec<_>>().join("x");
    out.key = format!("huge {} -> {}", name(&src), name(&dst));
    let value = |i: usize| ((i % 65_521) as f32) - 0.5 * ((i / 65_521) % 7) as f32;
    let t = if src.len() == 1 {
        Tensor::single((0..ns).map(value).collect())
    } else {
        let (c, h, w) = (src[0], src[1], src[2]);
        Tensor::triple((0..c).map(|a| (0..h).map(|b| (0..w).map(|e| value((a * h + b) * w + e)).collect()).collect()).collect())
    };
    let shape = if dst.len() == 1 { Shape::Single(dst[0]) } else { Shape::Triple(dst[0], dst[1], dst[2]) };
    let r = guard(|| t.reshape(shape));
    let detail = J::obj().set("source", J::usizes(&src)).set("target", J::usizes(&dst));
    if ns != nd {
        out.count("huge_unequal_count_reshapes_that_must_be_refused", 1);
        if let Ok(r) = r {
            out.viol("reshape:unequal-count-accepted:huge", format!("reshape {} -> {} ({} vs {} elements) was not refused; the result holds {} elements", name(&src), name(&dst), ns, nd, flat(&r).len()), detail);
        }
    } else {
        out.count("huge_equal_count_reshapes", 1);
        match r {
            Err(m) => out.viol("reshape:panic:huge", format!("reshape {} -> {} (equal counts) panicked: {}", name(&src), name(&dst), short(&m, 160)), detail),
            Ok(r) => {
                let got = flat(&r);
                if got.len() != ns || !shape_consistent(&r) || shape_dims(&r.shape) != dst {
                    out.viol("reshape:shape:huge", format!("reshape {} -> {} gives shape {:?} with {} elements", name(&src), name(&dst), shape_dims(&r.shape), got.len()), detail);
                } else if let Some(i) = (0..ns).find(|i| got[*i].to_bits() != value(*i).to_bits()) {
                    out.viol("reshape:sequence:huge", format!("reshape {} -> {} does not preserve the row-major sequence (first difference at element {})", name(&src), name(&dst), i), detail);
                }
            }
        }
    }
}

impl Monitor for C14 {
    fn id(&self) -> &'static str {
        "C14"
    }
    fn gens(&self, tier: Tier) -> Vec<(&'static str, u64)> {
        match tier {
            Tier::Quick => vec![("grid6", 216 * 3), ("random", 1500), ("large", 96), ("huge_counts", 12)],
            Tier::Thorough => vec![("grid6", 216 * 3), ("grid8", 512 * 3), ("random", 30_000), ("large", 1500), ("huge_counts", 24)],
        }
    }
    fn rule(&self) -> &'static str {
        "grid: case = (source shape c x h x w in 1..D^3, content kind in {index-valued, random, special values incl. -0, denormals, +-MAX, NaN, +-inf}); every case runs Tensor::triple, flatten, get_flat, single, get_triple and reshape towards every target in 1..D^3, every factorisation of the element count, and (1,1,k)-style targets with k in {n-1, n, n+1, 2n}: equal-count targets must preserve the bit-exact row-major sequence, record a shape that matches the nesting, and round-trip to the identity; unequal-count targets (3D->3D, vector->3D, 3D->vector) must be refused by panic. random: source dims up to 12. large: element counts {4095..4097, 8192, 16383..16385, 20000, 30030, 32768, 65536, 65537, 100000, 131072} in a random factorisation c x h x w (mostly non-square planes), same checks. huge_counts: twelve (source, target) pairs with 2^24 .. 3 x 2^24 elements whose counts differ by 1..4096 (a count kept in single precision cannot tell them apart: must be refused) or are equal (must be accepted, bit-exact sequence), vector->3D, 3D->vector and 3D->3D."
    }
    fn assumptions(&self) -> Vec<&'static str> {
        vec!["Single->Single reshape with a different length is outside the refusal clause (vector<->3-D and 3-D<->3-D only); whatever it returns must still carry a recorded shape that matches its data"]
    }
    fn run(&self, gen: &str, seed: u64, idx: u64, _tier: Tier) -> Out {
        let mut rng = Rng::stream(seed, gen, idx);
        if gen == "huge_counts" {
            let mut out = Out::new(String::new());
            huge_counts(idx, &mut out);
            return out;
        }
        let (c, h, w, kind, maxd) = match gen {
            "grid4" => {
                let s = (idx / 3) as usize;
                (1 + s / 16, 1 + (s / 4) % 4, 1 + s % 4, (idx % 3) as usize, 4)
            }
            "grid6" => {
                let s = (idx / 3) as usize;
                (1 + s / 36, 1 + (s / 6) % 6, 1 + s % 6, (idx % 3) as usize, 6)
            }
            "grid8" => {
                let s = (idx / 3) as usize;
                (1 + s / 64, 1 + (s / 8) % 8, 1 + s % 8, (idx % 3) as usize, 8)
            }
            "large" => {
                // element counts around the powers of two at which a parallel or blocked copy
                // would switch on, in a random factorisation (mostly non-square planes)
                let n = *rng.pick(&[4095usize, 4096, 4097, 8192, 16383, 16384, 16385, 20_000, 30_030, 32_768, 65_536, 65_537, 100_000, 131_072]);
                let mut divs: Vec<usize> = (1..=n).filter(|d| n % d == 0).collect();
                let c = *rng.pick(&divs);
                divs = (1..=n / c).filter(|d| (n / c) % d == 0).collect();
                let h = *rng.pick(&divs);
                (c, h, n / c / h, (idx % 2) as usize, 2)
            }
            _ => (rng.range(1, 12), rng.range(1, 12), rng.range(1, 12), rng.range(0, 2), 5),
        };
        if gen == "large" {
            let mut out = Out::new(String::new());
            out.count("large_sources", 1);
            out.cover("large_element_counts", (c * h * w).to_string());
            if h != w {
                out.count("large_sources_with_non_square_planes", 1);
            }
            let vals = contents(&mut rng, c * h * w, kind);
            out.key = format!("large {}x{}x{} kind {}", c, h, w, kind);
            check_source(c, h, w, maxd, &vals, &mut out);
            return out;
        }
        let vals = contents(&mut rng, c * h * w, kind);
        let mut out = Out::new(format!("{} {}x{}x{} kind {}", gen, c, h, w, kind));
        out.cover("source_shapes", format!("{}x{}x{}", c, h, w));
        check_source(c, h, w, maxd, &vals, &mut out);
        if idx < 2 {
            out.sample = Some(J::obj().set("source", J::usizes(&[c, h, w])).set("content_kind", J::Int(kind as i64)).set("values", J::f32s(&vals[..vals.len().min(24)])));
        }
        out
    }
    fn finish(&self, tier: Tier, _seed: u64, agg: &mut Agg) {
        let want = if tier == Tier::Thorough { 512 } else { 216 };
        agg.extra.push(("exhaustive".into(), J::Bool(agg.set_size("source_shapes") >= want)));
        agg.require(agg.set_size("source_shapes") >= want, "grid not covered".into());
        agg.require(agg.count("large_sources_with_non_square_planes") >= 40, "too few large non-square sources".into());
        agg.require(agg.count("unequal_count_reshapes_that_must_be_refused") > 1000, "too few refusal cases".into());
    }
}
