//! C07 — activations: defined function, exact derivative, total on finite floats.

use crate::cfg::{Act, Sh, ELEMENTWISE};
use crate::core::*;
use crate::json::J;
use crate::lib_build::{flat, lib_act, shape_consistent, shape_dims, tensor_of};
use crate::refmodel::{sigmoid64, EPS32};
use crate::rng::Rng;
use neurons::activation::Function;

pub struct C07;

const CHUNK_BITS: u32 = 20;

fn close(got: f32, want: f64, rel: f64, abs: f64) -> bool {
    if !got.is_finite() {
        return false;
    }
    (got as f64 - want).abs() <= rel * want.abs() + abs
}

/// Checks forward and backward of one element-wise activation on `xs` (all finite).
fn check_elementwise(act: Act, xs: &[f32], fwd: &[f32], bwd: &[f32], out: &mut Out, sigs: &mut Vec<String>) {
    let mut report = |out: &mut Out, dir: &str, kind: &str, x: f32, got: f32, want: String| {
        let sig = format!("act:{}:{}:{}", act.name(), dir, kind);
        if !sigs.contains(&sig) {
            sigs.push(sig.clone());
            out.viol(
                &sig,
                format!("{} {}({:e} = bits {:#010x}) = {:e}, expected {}", act.name(), dir, x, x.to_bits(), got, want),
                J::obj().set("x_bits", J::Int(x.to_bits() as i64)).set("x", J::f(x as f64)).set("got", J::f(got as f64)),
            );
        } else {
            out.count("further_violations_same_signature", 1);
        }
    };
    for i in 0..xs.len() {
        let x = xs[i];
        let xf = x as f64;
        let (y, d) = (fwd[i], bwd[i]);
        if y.is_nan() || y.is_infinite() {
            report(out, "forward", "not-finite", x, y, "a finite value".into());
            continue;
        }
        if d.is_nan() || d.is_infinite() {
            report(out, "backward", "not-finite", x, d, "a finite value".into());
            continue;
        }
        match act {
            Act::Relu => {
                let ok = if x > 0.0 { y.to_bits() == x.to_bits() } else { y == 0.0 };
                if !ok {
                    report(out, "forward", "value", x, y, "max(0,x)".into());
                }
                let ok = if x > 0.0 { d == 1.0 } else if x < 0.0 { d == 0.0 } else { d == 0.0 || d == 1.0 };
                if !ok {
                    report(out, "backward", "value", x, d, "1 if x>0 else 0".into());
                }
            }
            Act::Leaky => {
                let ok = if x > 0.0 { y.to_bits() == x.to_bits() } else { close(y, 0.01 * xf, 1e-5, 1.5e-45) };
                if !ok {
                    report(out, "forward", "value", x, y, "x if x>0 else 0.01x".into());
                }
                let ok = if x > 0.0 {
                    d == 1.0
                } else if x < 0.0 {
                    close(d, 0.01, 1e-5, 0.0)
                } else {
                    d == 1.0 || close(d, 0.01, 1e-5, 0.0)
                };
                if !ok {
                    report(out, "backward", "value", x, d, "1 if x>0 else 0.01".into());
                }
            }
            Act::Sigmoid => {
                let s = sigmoid64(xf);
                if !(0.0..=1.0).contains(&y) {
                    report(out, "forward", "range", x, y, "a value in [0,1]".into());
                } else if !close(y, s, 1e-5, 4e-39) {
                    // relative: the negative tail (2e-9 at -20, 1e-38 at -87) is part of the
                    // function; below -88.72 exp(-x) overflows and the value (< 3e-39) may be 0
                    report(out, "forward", "value", x, y, format!("{:e}", s));
                }
                // the derivative y(1-y) inherits the relative accuracy of y for x <= 0; for x > 0
                // it is formed from 1-y, which is absolute (0 once y rounds to 1)
                if !close(d, s * (1.0 - s), 1e-5, if x <= 0.0 { 4e-39 } else { 1e-6 }) {
                    report(out, "backward", "value", x, d, format!("{:e}", s * (1.0 - s)));
                }
            }
            Act::Tanh => {
                let t = xf.tanh();
                if !(-1.0..=1.0).contains(&y) {
                    report(out, "forward", "range", x, y, "a value in [-1,1]".into());
                } else if !close(y, t, 1e-5, 1.5e-45) {
                    // relative down to the sub-normals: tanh(x) = x(1 - x^2/3 ...) near zero
                    report(out, "forward", "value", x, y, format!("{:e}", t));
                }
                let c = xf.cosh();
                // relative in the tails as well (8e-9 at |x| = 10); beyond |x| = 45.05 cosh^2
                // overflows in single precision and the value (< 3e-39) may be 0
                if !close(d, 1.0 / (c * c), 1e-5, 4e-39) {
                    report(out, "backward", "value", x, d, format!("{:e}", 1.0 / (c * c)));
                }
            }
            Act::Linear => {
                if y.to_bits() != x.to_bits() {
                    report(out, "forward", "value", x, y, "x".into());
                }
                if d != 1.0 {
                    report(out, "backward", "value", x, d, "1".into());
                }
            }
            Act::Softmax => unreachable!(),
        }
    }
}

/// Runs all five activations over the finite values of `xs`, as a flat tensor or as a 3-D one.
fn run_values(xs: Vec<f32>, triple: Option<(usize, usize, usize)>, out: &mut Out) {
    let mut sigs = Vec::new();
    let sh = match triple {
        Some((c, h, w)) if c * h * w == xs.len() => Sh::Sp(c, h, w),
        _ => Sh::Flat(xs.len()),
    };
    let input = tensor_of(sh, &xs);
    for act in ELEMENTWISE.iter() {
        let f = Function::create(&lib_act(*act));
        let r = guard(|| (f.forward(&input), f.backward(&input)));
        match r {
            Err(m) => {
                let sig = format!("act:{}:panic", act.name());
                out.viol(&sig, format!("{} panicked on finite input: {}", act.name(), short(&m, 200)), J::Null);
            }
            Ok((fw, bw)) => {
                for (dir, t) in [("forward", &fw), ("backward", &bw)] {
                    if shape_dims(&t.shape) != shape_dims(&input.shape) || !shape_consistent(t) {
                        let sig = format!("act:{}:{}:shape", act.name(), dir);
                        if !sigs.contains(&sig) {
                            sigs.push(sig.clone());
                            out.viol(&sig, format!("{} {}: input shape {:?}, output shape {:?} consistent={}", act.name(), dir, shape_dims(&input.shape), shape_dims(&t.shape), shape_consistent(t)), J::Null);
                        }
                    }
                }
                let (fwv, bwv) = (flat(&fw), flat(&bw));
                if fwv.len() != xs.len() || bwv.len() != xs.len() {
                    out.viol(&format!("act:{}:length", act.name()), format!("{}: {} inputs, {} / {} outputs", act.name(), xs.len(), fwv.len(), bwv.len()), J::Null);
                    continue;
                }
                check_elementwise(*act, &xs, &fwv, &bwv, out, &mut sigs);
            }
        }
    }
    out.evals = xs.len() as u64 * 10;
    out.distinct = Some(xs.len() as u64);
    out.count("finite_f32_inputs_checked_per_activation_and_direction", xs.len() as u64);
}

fn softmax_family(rng: &mut Rng, fam: usize, n: usize) -> (Vec<f32>, &'static str) {
    match fam {
        0 => ((0..n).map(|_| (rng.normal() * 3.0) as f32).collect(), "moderate"),
        1 => ((0..n).map(|_| *rng.pick(&[3.0e38f32, -3.0e38, 1.0e38, -1.0e30, 0.0, 2.9e38, 3.4028235e38, -3.4028235e38])).collect(), "huge"),
        2 => {
            let v = rng.f32_in(-100.0, 100.0);
            (vec![v; n], "all-equal")
        }
        3 => {
            let mut v: Vec<f32> = (0..n).map(|_| rng.f32_in(-1.0, 1.0)).collect();
            let k = rng.range(0, n - 1);
            v[k] = rng.f32_in(20.0, 200.0);
            (v, "one-dominant")
        }
        4 => ((0..n).map(|_| f32::from_bits(rng.range(0, 0x007fffff) as u32 | if rng.bool() { 0x80000000 } else { 0 })).collect(), "denormal"),
        5 => {
            let top = rng.f32_in(-5.0, 5.0);
            ((0..n).map(|i| top - (i as f32) * rng.f32_in(1.0, 4.0)).collect(), "long-tail")
        }
        6 => ((0..n).map(|_| (rng.normal() * 1e4) as f32 + 1e6).collect(), "large-offset"),
        _ => ((0..n).map(|_| rng.f32_in(-90.0, 90.0)).collect(), "wide"),
    }
}

fn softmax64(x: &[f32]) -> Vec<f64> {
    let mx = x.iter().fold(f64::NEG_INFINITY, |a, b| a.max(*b as f64));
    let e: Vec<f64> = x.iter().map(|v| (*v as f64 - mx).exp()).collect();
    let s: f64 = e.iter().sum();
    e.iter().map(|v| v / s).collect()
}

fn check_softmax(x: &[f32], sh: Sh, fam: &str, out: &mut Out) -> Option<Vec<f32>> {
    let f = Function::create(&lib_act(Act::Softmax));
    let input = tensor_of(sh, x);
    let t = match guard(|| f.forward(&input)) {
        Ok(t) => t,
        Err(m) => {
            out.viol("softmax:panic", format!("softmax panicked on {} vector of length {}: {}", fam, x.len(), short(&m, 200)), J::f32s(x));
            return None;
        }
    };
    if shape_dims(&t.shape) != shape_dims(&input.shape) || !shape_consistent(&t) {
        out.viol("softmax:shape", format!("input shape {:?} output shape {:?}", shape_dims(&input.shape), shape_dims(&t.shape)), J::Null);
    }
    let y = flat(&t);
    if y.len() != x.len() {
        out.viol("softmax:length", format!("{} inputs, {} outputs", x.len(), y.len()), J::Null);
        return None;
    }
    if let Some(v) = y.iter().find(|v| !v.is_finite() || **v < 0.0) {
        out.viol("softmax:not-finite-or-negative", format!("softmax({} vector, n={}) contains {}", fam, x.len(), v), J::f32s(x));
        return None;
    }
    let sum: f64 = y.iter().map(|v| *v as f64).sum();
    let n = x.len().max(4) as f64;
    if (sum - 1.0).abs() > n * 2.0 * EPS32 {
        out.viol("softmax:sum", format!("softmax({} vector, n={}) sums to {}", fam, x.len(), sum), J::f32s(x));
    }
    let want = softmax64(x);
    for i in 0..x.len() {
        // the f32 sum of n positive terms carries a relative error of up to n * eps
        if (y[i] as f64 - want[i]).abs() > (1e-5 + x.len() as f64 * EPS32) * want[i] + 3e-45 {
            out.viol("softmax:value", format!("softmax({} vector, n={})[{}] = {:e}, expected {:e}", fam, x.len(), i, y[i], want[i]), J::f32s(x));
            break;
        }
    }
    // arg-max preserved (ties allowed)
    let am = x.iter().enumerate().fold(0usize, |b, (i, v)| if *v > x[b] { i } else { b });
    if y.iter().any(|v| *v > y[am]) {
        out.viol("softmax:argmax", format!("softmax({} vector, n={}) does not peak at the arg-max of the input", fam, x.len()), J::f32s(x));
    }
    Some(y)
}

impl Monitor for C07 {
    fn id(&self) -> &'static str {
        "C07"
    }
    fn gens(&self, tier: Tier) -> Vec<(&'static str, u64)> {
        match tier {
            Tier::Quick => vec![("stratified", 510 * 4), ("rank", 6000), ("softmax", 20_000)],
            Tier::Thorough => vec![("sweep", 1u64 << (32 - CHUNK_BITS)), ("rank", 200_000), ("softmax", 200_000)],
        }
    }
    fn rule(&self) -> &'static str {
        "sweep: case k = all bit patterns k*2^20 .. (k+1)*2^20, non-finite ones skipped, through forward and backward of ReLU, LeakyReLU, Sigmoid, Tanh, Linear (public API, one tensor per chunk; every 16th chunk as a 3-D tensor) against f64 oracles (value 1e-5 relative + 1.5e-45 for tanh, 1e-5 relative + 4e-39 for sigmoid - its negative tail is judged relatively down to where exp(-x) overflows -, derivative 1e-5 relative + 1e-6 absolute for sigmoid at x > 0 (formed from 1-y), 1e-5 relative + 4e-39 for sigmoid at x <= 0 and for tanh (its tails are judged relatively up to where cosh^2 overflows), never NaN/inf, sigmoid in [0,1], tanh in [-1,1], either one-sided derivative at +-0); distinct = number of distinct finite bit patterns. stratified: per (sign, exponent) 2^15 mantissas incl. all-zeros and all-ones. rank: random CxHxW tensors, both the 3-D and the flat path are compared with the oracle (same tolerances) and must preserve the shape field and the nesting. softmax: 100 vectors per case from 8 families (moderate, huge +-3e38, all-equal, one-dominant, denormal, long-tail, large-offset, wide), lengths 1..64 and (every tenth vector) 65..4097, flat and 3-D: finite, >= 0, sum 1, equals f64 soft-max (1e-5 + n*eps relative), shift-invariant, arg-max preserved."
    }
    fn assumptions(&self) -> Vec<&'static str> {
        vec!["f64 libm is the oracle for exp/tanh/cosh", "soft-max backward is not part of C07 (it belongs to C01)"]
    }
    fn run(&self, gen: &str, seed: u64, idx: u64, _tier: Tier) -> Out {
        match gen {
            "sweep" => {
                let base = (idx as u32) << CHUNK_BITS;
                let xs: Vec<f32> = (0..(1u32 << CHUNK_BITS)).map(|i| f32::from_bits(base | i)).filter(|v| v.is_finite()).collect();
                let mut out = Out::new(format!("bits {:#010x}..", base));
                if xs.is_empty() {
                    out.nontrivial = false;
                    out.evals = 0;
                    return out;
                }
                let triple = if idx % 16 == 0 && xs.len() == 1 << CHUNK_BITS { Some((4, 512, 512)) } else { None };
                run_values(xs, triple, &mut out);
                out
            }
            "stratified" => {
                let sign = (idx % 2) as u32;
                let exp = ((idx / 2) % 255) as u32; // 0..=254
                let block = (idx / 510) as u32; // four blocks of 2^15 mantissas per (sign, exponent)
                let off = (seed % 255) as u32 + 1 + 257 * block;
                let mut xs = Vec::with_capacity(1 << 15);
                for k in 0..(1u32 << 15) {
                    let mant = match k {
                        0 => 0,
                        1 => 0x7fffff,
                        2 => 1,
                        3 => 0x7ffffe,
                        _ => ((k << 8).wrapping_add(off * (k & 0xff))) & 0x7fffff,
                    };
                    xs.push(f32::from_bits((sign << 31) | (exp << 23) | mant));
                }
                let mut out = Out::new(format!("sign {} exponent {}", sign, exp));
                let triple = if idx % 3 == 0 { Some((2, 128, 128)) } else { None };
                run_values(xs, triple, &mut out);
                if idx < 2 {
                    out.sample = Some(J::obj().set("sign", J::Int(sign as i64)).set("exponent_field", J::Int(exp as i64)).set("mantissas", J::Int(1 << 15)));
                }
                out
            }
            "rank" => {
                let mut rng = Rng::stream(seed, gen, idx);
                let (c, h, w) = (rng.range(1, 4), rng.range(1, 7), rng.range(1, 7));
                let scale = *rng.pick(&[1.0f32, 10.0, 100.0, 1e-3, 1e6]);
                let xs: Vec<f32> = (0..c * h * w).map(|_| (rng.normal() as f32) * scale).collect();
                let mut out = Out::new(format!("rank {}x{}x{} scale {}", c, h, w, scale));
                let t3 = tensor_of(Sh::Sp(c, h, w), &xs);
                let t1 = tensor_of(Sh::Flat(xs.len()), &xs);
                let mut sigs = Vec::new();
                for act in ELEMENTWISE.iter() {
                    let f = Function::create(&lib_act(*act));
                    for (t, dims, rank) in [(&t3, vec![c, h, w], "3-D"), (&t1, vec![xs.len()], "flat")] {
                        match guard(|| (f.forward(t), f.backward(t))) {
                            Err(m) => out.viol(&format!("rank:{}:panic", act.name()), format!("{} panicked on a {} tensor {}x{}x{}: {}", act.name(), rank, c, h, w, short(&m, 200)), J::Null),
                            Ok((a, b)) => {
                                for (dir, r) in [("forward", &a), ("backward", &b)] {
                                    if shape_dims(&r.shape) != dims || !shape_consistent(r) {
                                        out.viol(&format!("rank:{}:{}:shape", act.name(), dir), format!("{} {} on {} input {:?}: output shape {:?}, consistent={}", act.name(), dir, rank, dims, shape_dims(&r.shape), shape_consistent(r)), J::Null);
                                    }
                                }
                                let (fa, fb) = (flat(&a), flat(&b));
                                if fa.len() == xs.len() && fb.len() == xs.len() {
                                    check_elementwise(*act, &xs, &fa, &fb, &mut out, &mut sigs);
                                } else {
                                    out.viol(&format!("rank:{}:length", act.name()), format!("{} on {} input: element count changed", act.name(), rank), J::Null);
                                }
                                out.count("rank_tensors_checked", 1);
                            }
                        }
                    }
                }
                check_softmax(&xs, Sh::Sp(c, h, w), "rank-3D", &mut out);
                check_softmax(&xs, Sh::Flat(xs.len()), "rank-flat", &mut out);
                out.cover("rank_shapes", format!("{}x{}x{}", c, h, w));
                if idx < 2 {
                    out.sample = Some(J::obj().set("shape", J::usizes(&[c, h, w])).set("values", J::f32s(&xs)));
                }
                out
            }
            "softmax" => {
                let mut rng = Rng::stream(seed, gen, idx);
                let mut out = Out::new(String::new());
                let mut n_vec = 0u64;
                for k in 0..100usize {
                    let n = if k < 8 { [1, 2, 3, 4, 16, 63, 64, 5][k] } else if k % 10 == 9 { *rng.pick(&[65usize, 100, 127, 128, 129, 255, 256, 257, 1000, 1024, 4097]) } else { rng.range(1, 64) };
                    let fam = (k + idx as usize) % 8;
                    let (x, name) = softmax_family(&mut rng, fam, n);
                    let sh = if rng.chance(0.3) {
                        // a 3-D factorisation of n
                        let c = (1..=n).filter(|c| n % c == 0).nth(rng.range(0, 1)).unwrap_or(1);
                        let rest = n / c;
                        let h = (1..=rest).filter(|h| rest % h == 0).nth(rng.range(0, 2)).unwrap_or(1);
                        Sh::Sp(c, h, rest / h)
                    } else {
                        Sh::Flat(n)
                    };
                    n_vec += 1;
                    out.cover("softmax_families", name.to_string());
                    out.cover("softmax_lengths", n.to_string());
                    let y = check_softmax(&x, sh, name, &mut out);
                    // shift invariance
                    if let Some(y) = y {
                        let maxabs = x.iter().fold(0.0f64, |a, b| a.max((*b as f64).abs()));
                        let c = (rng.normal() * 10.0) as f32;
                        let delta = 4.0 * EPS32 * (maxabs + c.abs() as f64);
                        if delta < 0.05 && maxabs < 1e30 {
                            let xs: Vec<f32> = x.iter().map(|v| v + c).collect();
                            if let Ok(t) = guard(|| Function::create(&lib_act(Act::Softmax)).forward(&tensor_of(Sh::Flat(n), &xs))) {
                                let y2 = flat(&t);
                                let bound = (2.0 * delta).exp() - 1.0 + 2e-5 + 2.0 * n as f64 * EPS32;
                                for i in 0..n {
                                    if (y2[i] as f64 - y[i] as f64).abs() > bound * (y[i] as f64) + 4e-45 {
                                        out.viol(
                                            "softmax:shift",
                                            format!("softmax(x+{})[{}] = {:e} but softmax(x)[{}] = {:e} ({} vector, n={})", c, i, y2[i], i, y[i], name, n),
                                            J::obj().set("x", J::f32s(&x)).set("c", J::f(c as f64)),
                                        );
                                        break;
                                    }
                                }
                                out.count("shift_invariance_pairs", 1);
                            }
                        }
                    }
                    if idx == 0 && k < 2 {
                        out.sample = Some(J::obj().set("family", J::s(name)).set("x", J::f32s(&x)));
                    }
                }
                out.evals = n_vec;
                out.distinct = Some(n_vec);
                out.count("softmax_vectors", n_vec);
                out
            }
            _ => panic!("unknown generator {}", gen),
        }
    }
    fn finish(&self, tier: Tier, _seed: u64, agg: &mut Agg) {
        let n = agg.count("finite_f32_inputs_checked_per_activation_and_direction");
        let all_finite: u64 = (1u64 << 32) - (1u64 << 24); // exponent field 255 excluded, both signs
        if tier == Tier::Thorough {
            agg.extra.push(("exhaustive".into(), J::Bool(n == all_finite)));
            agg.require(n == all_finite, format!("expected {} finite bit patterns, swept {}", all_finite, n));
        } else {
            agg.extra.push(("exhaustive".into(), J::Bool(false)));
            agg.require(n >= 60_000_000, format!("only {} inputs swept", n));
        }
        agg.require(agg.set_size("softmax_families") == 8, "not all soft-max families exercised".into());
    }
}
