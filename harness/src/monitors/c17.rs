//! C17 — loop connections compute the accumulated repeated sub-network.

use crate::cfg::*;
use crate::core::*;
use crate::gen::*;
use crate::json::J;
use crate::lib_build::*;
use crate::monitors::c02::{cmp_e, sh_dims};
use crate::monitors::c11::case_json;
use crate::refmodel::*;
use crate::rng::Rng;

pub struct C17;

/// Two or three loop connections over disjoint ranges of one network.
fn several(seed: u64, idx: u64) -> Out {
    let mut rng = Rng::stream(seed, "several", idx);
    let mut out = Out::new(String::new());
    let acc = ACCS[(idx % 5) as usize];
    let rep = ((idx / 5) % 3) as usize;
    let acts = [Act::Tanh, Act::Sigmoid, Act::Linear, Act::Leaky, Act::Relu];
    let depth = rng.range(4, 8);
    let (kind, end_dense) = match rep {
        0 => (0, rng.bool()),
        1 => (1, false),
        _ => (1, true),
    };
    let mut cfg = chain(&mut rng, kind, depth, &acts, true, end_dense);
    let shapes = cfg.shapes().unwrap();
    let n_eq = if end_dense { cfg.layers.len() - 1 } else { cfg.layers.len() };
    // walk the equal-shape part from the front and cut it into disjoint loopable ranges
    let want = rng.range(2, 3);
    let mut loops: Vec<(usize, usize, usize, bool)> = Vec::new();
    // every third case: ranges in ANY arrangement (nested, overlapping, sharing a start), the
    // other cases pairwise disjoint ranges. The iterations of a loop re-apply its layers plainly
    // (no inner loop runs inside them), in the library as in the reference.
    let any_arrangement = (idx / 15) % 3 == 2;
    if any_arrangement {
        for _ in 0..12 {
            if loops.len() >= want {
                break;
            }
            let a = rng.range(0, n_eq - 1);
            let b = rng.range(a, (n_eq - 1).min(a + 3));
            if shapes[a].0 == shapes[b].1 && loops.iter().all(|l| l.0 != b) {
                loops.push((b, a, rng.range(1, 3), false));
            }
        }
        loops.sort();
        // input skips only where "the original input of layer a" is unambiguous: layer a's input
        // is not the (accumulated) output of a layer inside another looped range - a is at or in
        // front of the other range's first layer, or behind the layer after its last one
        for i in 0..loops.len() {
            let a = loops[i].1;
            let clear = (0..loops.len()).filter(|j| *j != i).all(|j| a <= loops[j].1 || a > loops[j].0 + 1);
            if clear && rng.chance(0.5) {
                loops[i].3 = true;
            }
        }
    } else {
        let mut a = rng.range(0, 1);
        while a < n_eq && loops.len() < want {
            let cands: Vec<usize> = (a..n_eq.min(a + 3)).filter(|b| shapes[a].0 == shapes[*b].1).collect();
            if cands.is_empty() {
                a += 1;
                continue;
            }
            let b = *rng.pick(&cands);
            loops.push((b, a, rng.range(1, 3), rng.chance(0.3)));
            a = b + 1 + rng.range(0, 1);
        }
    }
    if loops.len() < 2 {
        out.nontrivial = false;
        out.count("chains_without_two_disjoint_ranges", 1);
        out.key = format!("fewer than two ranges in {}", cfg.describe());
        return out;
    }
    cfg.loops = loops.clone();
    cfg.loopacc = acc;
    // the gradient scaling closure of loopback() must not show in the forward value
    cfg.loopscale = (idx % 4) as usize;
    cfg.skipacc = ACCS[((idx / 7) % 5) as usize];
    out.key = cfg.describe();
    out.cover("several_grid", format!("{} {} loops {}", acc.name(), loops.len(), ["dense", "spatial", "spatial-flattened"][rep]));
    out.count("networks_with_several_loop_connections", 1);
    if any_arrangement {
        let nested_or_overlapping = loops.iter().enumerate().any(|(i, l1)| loops.iter().skip(i + 1).any(|l2| !(l1.0 < l2.1 || l2.0 < l1.1)));
        if nested_or_overlapping {
            out.count("networks_with_nested_or_overlapping_loops", 1);
        }
    }
    let params = gen_params(&cfg, &mut rng, -1.0, 1.0).unwrap();
    let x = varied_input(&mut rng, cfg.input);
    let net = match build(&cfg, Some(&params)) {
        Ok(n) => n,
        Err(m) => {
            out.viol("loop:several:create-panic", format!("building {} panicked: {}", cfg.describe(), short(&m, 200)), case_json(&cfg, &params, &x));
            return out;
        }
    };
    let r: RNet<E> = RNet::plain(&cfg, &params);
    let want = r.forward(&Val::from_f32(cfg.input, &x));
    // products of several accumulated ranges can leave the single-precision range: nothing is
    // claimed about values beyond it
    if want.outs.iter().any(|o| o.d.iter().any(|e| !(e.v.abs() + 8.0 * e.e < 1e30))) {
        out.nontrivial = false;
        out.count("networks_leaving_the_single_precision_range_not_judged", 1);
        return out;
    }
    let pred = guard(|| net.predict(&tensor_of(cfg.input, &x)));
    match &pred {
        Err(m) => out.viol("loop:several:forward-panic", format!("predict of {} panicked: {}", cfg.describe(), short(m, 200)), case_json(&cfg, &params, &x)),
        Ok(p) => {
            out.count("loop_predictions_compared", 1);
            let w = want.output();
            if shape_dims(&p.shape) != sh_dims(w.sh) || !shape_consistent(p) {
                out.viol("loop:several:shape", format!("{}: output shape {:?}, expected {}", cfg.describe(), shape_dims(&p.shape), w.sh.name()), case_json(&cfg, &params, &x));
            } else if let Some((i, got, exp, tol)) = cmp_e(&flat(p), &w.d) {
                out.viol(
                    &format!("loop:several:value:{}", acc.name()),
                    format!("{}: output[{}] = {:e}, accumulated repeated sub-networks give {:e} (bound {:e})", cfg.describe(), i, got, exp, tol),
                    case_json(&cfg, &params, &x),
                );
            }
        }
    }
    if acc == Acc::Overwrite && loops.iter().all(|l| !l.3) && !any_arrangement {
        if let Ok(p) = &pred {
            let mut layers = Vec::new();
            let mut ps = Vec::new();
            let mut i = 0;
            while i < cfg.layers.len() {
                if let Some((b, a, iters, _)) = loops.iter().find(|l| l.1 == i) {
                    for _ in 0..=*iters {
                        for j in *a..=*b {
                            layers.push(cfg.layers[j].clone());
                            ps.push(params[j].clone());
                        }
                    }
                    i = *b + 1;
                } else {
                    layers.push(cfg.layers[i].clone());
                    ps.push(params[i].clone());
                    i += 1;
                }
            }
            let plain = NetCfg::plain(cfg.input, layers);
            match build(&plain, Some(&ps)).and_then(|n| guard(|| n.predict(&tensor_of(plain.input, &x)))) {
                Ok(q) => {
                    out.count("several_overwrite_vs_unrolled_comparisons", 1);
                    if !bits_eq(&flat(p), &flat(&q)) {
                        out.viol("loop:several:overwrite-differs-from-unrolled", format!("{}: differs from the plain network with every looped range physically repeated", cfg.describe()), case_json(&cfg, &params, &x));
                    }
                }
                Err(m) => out.inconclusive = Some(format!("unrolled twin of {} failed: {}", cfg.describe(), short(&m, 120))),
            }
        }
    }
    if idx < 3 {
        out.sample = Some(case_json(&cfg, &params, &x));
    }
    out
}

impl Monitor for C17 {
    fn id(&self) -> &'static str {
        "C17"
    }
    fn gens(&self, tier: Tier) -> Vec<(&'static str, u64)> {
        vec![("loops", tier.pick(240_000, 4_800_000)), ("several", tier.pick(60_000, 1_200_000))]
    }
    fn rule(&self) -> &'static str {
        "case i -> accumulation (i mod 5), input skips (i/5 mod 2), iterations k = 1 + (i/10 mod 4), representation (i/40 mod 4: dense range / spatial range of 'same' convolutions, deconvolutions, 1x1 pools and deconvolution+max-pool pairs / the same followed by a dense layer so that the loop output is flattened / mixed chain on r*r elements where spatial layers follow dense layers, so that a looped range may begin with a spatial layer that is fed a flat tensor), the network's skip accumulation (i/7 mod 5, set although it only concerns skip connections), the gradient-scaling closure handed to loopback (i/3 mod 4: 1/x, constant 1, 1/sqrt(x), x - it concerns the backward pass and must not show in the value), position of the range (start / middle / end) and its length 1..3 random, every sixth network additionally has an additive skip connection outside the looped range or into its first layer, every fifth has layers outside the range wrapped into feedback blocks; predict is compared with the reference (o_0 = first output of layer b, o_t = f_{a..b}(o_{t-1} [+ input of a]), passed on = combine(o_0; o_1..o_k)) within the running f32 bound; for overwrite without input skips additionally bit-exact against a plain library network in which layers a..b are physically repeated k+1 times with the same weights, and (every second such case) the same equivalence in training mode: with dropout 0.5 on the looped layers the training loss of one learn() step on one sample - the objective of the training-mode forward pass - must be bit-equal for the looped and the unrolled network. several: chains of 4..8 layers with two or three loop connections over pairwise disjoint ranges (every third case: ranges in any arrangement - nested, overlapping, sharing a start - without input skips) (own iteration counts and input-skip flags, one shared accumulation), same oracle; for overwrite without input skips the network with every range physically repeated. Distinct = distinct configuration descriptors."
    }
    fn assumptions(&self) -> Vec<&'static str> {
        vec!["reference loop semantics written from the property statement (refmodel::RNet::forward)", "skip connections in the generated networks end outside the looped range or at its first layer (whose accumulated input is then what the loop's input skip adds)"]
    }
    fn run(&self, gen: &str, seed: u64, idx: u64, _tier: Tier) -> Out {
        if gen == "several" {
            return several(seed, idx);
        }
        let mut rng = Rng::stream(seed, "loops", idx);
        let acc = ACCS[(idx % 5) as usize];
        let inskips = (idx / 5) % 2 == 1;
        let iters = 1 + ((idx / 10) % 4) as usize;
        // representation: dense chain / spatial chain / spatial chain flattened into a dense layer /
        // mixed chain on r*r elements in which spatial layers follow dense layers (a looped range
        // may then begin with a spatial layer that is fed a flat tensor)
        let rep = ((idx / 40) % 4) as usize;
        // (soft-max among the activations: the value passed on after a looped soft-max layer is
        // still the accumulation of its k+1 outputs)
        let acts = [Act::Tanh, Act::Sigmoid, Act::Linear, Act::Leaky, Act::Relu, Act::Tanh, Act::Softmax];
        let depth = rng.range(2, 5);
        let (kind, end_dense) = match rep {
            0 => (0, rng.bool()),
            1 => (1, false),
            2 => (1, true),
            _ => (2, rng.bool()),
        };
        let mut cfg = chain(&mut rng, kind, depth, &acts, true, end_dense);
        // choose a range [a, b] of the equal-shape part whose output shape equals the input shape of a
        let shapes = cfg.shapes().unwrap();
        let n_eq = if end_dense { cfg.layers.len() - 1 } else { cfg.layers.len() };
        let mut ranges = Vec::new();
        for a in 0..n_eq {
            for b in a..n_eq.min(a + 3) {
                if shapes[a].0 == shapes[b].1 {
                    ranges.push((a, b));
                }
            }
        }
        let mut out = Out::new(String::new());
        let out_skipacc: Option<Acc>;
        if ranges.is_empty() {
            out.inconclusive = Some(format!("no loopable range in {}", cfg.describe()));
            return out;
        }
        // for the flattened representation the loop must end at the layer before the dense layer
        let cands: Vec<(usize, usize)> = if rep == 2 { ranges.iter().cloned().filter(|(_, b)| *b == n_eq - 1).collect() } else { ranges.clone() };
        let (a, b) = *rng.pick(if cands.is_empty() { &ranges } else { &cands });
        cfg.loops = vec![(b, a, iters, inskips)];
        cfg.loopacc = acc;
        // the gradient scaling closure of loopback() (1/x, 1, 1/sqrt(x), x) concerns the backward
        // pass only: it must not show in the forward value
        cfg.loopscale = ((idx / 3) % 4) as usize;
        // the accumulation configured for SKIP connections is independent of the loop: input
        // skips of a loop always add the original input of layer a
        cfg.skipacc = ACCS[((idx / 7) % 5) as usize];
        out_skipacc = Some(cfg.skipacc);
        // sometimes an (additive) skip connection elsewhere in the network: neither its source nor
        // its target lies inside the looped range
        if idx % 6 == 5 {
            let outside: Vec<(usize, usize)> = (0..cfg.layers.len())
                .flat_map(|s| (s..cfg.layers.len()).map(move |t| (s, t)))
                // (the target may also be the first layer of the looped range: the loop's input
                // skip then adds the accumulated input that layer processed in its first pass)
                .filter(|(s, t)| (*s < a || *s > b) && (*t < a || *t > b || (*t == a && *s < a)) && shapes[*s].0.count() == shapes[*t].0.count())
                .collect();
            if !outside.is_empty() {
                // half of these cases prefer a connection INTO the first looped layer
                let into_start: Vec<(usize, usize)> = outside.iter().cloned().filter(|(_, t)| *t == a).collect();
                let pick = if !into_start.is_empty() && rng.bool() { *rng.pick(&into_start) } else { *rng.pick(&outside) };
                if pick.1 == a {
                    out.count("networks_with_a_skip_connection_into_the_first_looped_layer", 1);
                }
                cfg.skips = vec![pick];
                cfg.skipacc = Acc::Add;
                out.count("networks_with_a_skip_connection_outside_the_loop", 1);
            }
        }
        // every fifth network: layers outside the looped range become feedback blocks (a loop, a
        // block and possibly a skip connection in one network)
        if idx % 5 == 3 {
            let before = cfg.clone();
            let mut wrapped = 0;
            for i in 0..cfg.layers.len() {
                let outside = i < a || i > b;
                let same = shapes[i].0 == shapes[i].1 && !shapes[i].2;
                let plain = matches!(cfg.layers[i], LCfg::Dense { .. } | LCfg::Conv { .. } | LCfg::Deconv { .. });
                let flat_before = i > 0 && shapes[i - 1].1.is_flat() != shapes[i].0.is_flat();
                if outside && same && plain && !flat_before && rng.chance(0.5) {
                    let body = vec![cfg.layers[i].clone()];
                    cfg.layers[i] = LCfg::Feedback { body, loops: rng.range(1, 3), inskips: false, outskips: false, acc: Acc::Mean };
                    wrapped += 1;
                }
            }
            if cfg.shapes().is_err() {
                cfg = before;
            } else if wrapped > 0 {
                out.count("networks_with_a_loop_and_feedback_blocks", 1);
            }
        }
        if let Some(sa) = out_skipacc {
            if inskips {
                out.cover("skip_accumulation_set_while_the_loop_has_input_skips", sa.name().to_string());
            }
        }
        let flattened = shapes[b].2;
        let has_pool = (a..=b).any(|i| matches!(cfg.layers[i], LCfg::Pool { .. }));
        out.key = cfg.describe();
        if rep == 3 {
            out.count("loops_in_mixed_flat_spatial_chains", 1);
            if !shapes[a].0.is_flat() && (a == 0 || shapes[a - 1].1.is_flat() || shapes[a - 1].2) {
                out.count("looped_ranges_beginning_with_a_spatial_layer_fed_a_flat_tensor", 1);
            }
        } else {
            out.cover("grid", format!("{} skips{} k{} {}", acc.name(), inskips, iters, if rep == 0 { "dense" } else if flattened { "spatial-flattened" } else { "spatial" }));
        }
        out.cover("range", format!("a{} b{} of {}", a, b, cfg.layers.len()));
        if has_pool {
            out.count("ranges_containing_max_pool", 1);
        }
        let params = gen_params(&cfg, &mut rng, -1.0, 1.0).unwrap();
        let x = varied_input(&mut rng, cfg.input);
        let net = match build(&cfg, Some(&params)) {
            Ok(n) => n,
            Err(m) => {
                out.viol("loop:create-panic", format!("building {} panicked: {}", cfg.describe(), short(&m, 200)), case_json(&cfg, &params, &x));
                return out;
            }
        };
        let r: RNet<E> = RNet::plain(&cfg, &params);
        let want = r.forward(&Val::from_f32(cfg.input, &x));
        let pred = guard(|| net.predict(&tensor_of(cfg.input, &x)));
        match &pred {
            Err(m) => {
                let sig = if inskips && flattened { "loop:forward-panic:inskips+flattened".to_string() } else { format!("loop:forward-panic:{}", acc.name()) };
                out.viol(&sig, format!("predict of {} panicked: {}", cfg.describe(), short(m, 200)), case_json(&cfg, &params, &x));
            }
            Ok(p) => {
                out.count("loop_predictions_compared", 1);
                let w = want.output();
                if shape_dims(&p.shape) != sh_dims(w.sh) || !shape_consistent(p) {
                    out.viol("loop:shape", format!("{}: output shape {:?}, expected {}", cfg.describe(), shape_dims(&p.shape), w.sh.name()), case_json(&cfg, &params, &x));
                } else if let Some((i, got, exp, tol)) = cmp_e(&flat(p), &w.d) {
                    out.viol(
                        &format!("loop:value:{}{}", acc.name(), if inskips { ":inskips" } else { "" }),
                        format!("{}: output[{}] = {:e}, accumulated repeated sub-network gives {:e} (bound {:e})", cfg.describe(), i, got, exp, tol),
                        case_json(&cfg, &params, &x),
                    );
                }
            }
        }
        // metamorphic: overwrite == physically unrolled plain network (bit-exact)
        if acc == Acc::Overwrite && !inskips {
            if let Ok(p) = &pred {
                let mut layers = Vec::new();
                let mut ps = Vec::new();
                for i in 0..cfg.layers.len() {
                    if i == a {
                        for _ in 0..=iters {
                            for j in a..=b {
                                layers.push(cfg.layers[j].clone());
                                ps.push(params[j].clone());
                            }
                        }
                    }
                    if i < a || i > b {
                        layers.push(cfg.layers[i].clone());
                        ps.push(params[i].clone());
                    }
                }
                let plain = NetCfg::plain(cfg.input, layers);
                match build(&plain, Some(&ps)).and_then(|n| guard(|| n.predict(&tensor_of(plain.input, &x)))) {
                    Ok(q) => {
                        out.count("overwrite_vs_unrolled_comparisons", 1);
                        if !bits_eq(&flat(p), &flat(&q)) {
                            out.viol("loop:overwrite-differs-from-unrolled", format!("{}: differs from the plain network with layers {}..{} repeated {} times", cfg.describe(), a, b, iters + 1), case_json(&cfg, &params, &x));
                        }
                    }
                    Err(m) => out.inconclusive = Some(format!("unrolled twin of {} failed: {}", cfg.describe(), short(&m, 120))),
                }
                // the same equivalence in TRAINING mode, with dropout configured on the looped
                // layers (the masks are drawn from a fixed seed, per call): the training loss of
                // one learn() step on one sample is the objective of the training-mode forward
                // pass taken before the step, and must be the same for both networks
                if idx % 2 == 0 {
                    let mut cfg_d = cfg.clone();
                    let mut plain_d = plain.clone();
                    for j in a..=b {
                        cfg_d.layers[j].set_dropout(Some(0.5));
                    }
                    for j in a..(a + (iters + 1) * (b - a + 1)) {
                        plain_d.layers[j].set_dropout(Some(0.5));
                    }
                    let n_out = cfg.shapes().map(|s| s.last().unwrap().1).unwrap();
                    let target = if matches!(cfg.layers.last(), Some(LCfg::Dense { .. })) { neurons::tensor::Tensor::single(vec![0.25; n_out.count()]) } else { tensor_of(n_out, &vec![0.25; n_out.count()]) };
                    let step = |c: &NetCfg, p: &[P]| -> Result<f32, String> {
                        let mut n = build(c, Some(p))?;
                        n.set_objective(lib_obj(Obj::MSE), None);
                        n.set_optimizer(OptCfg::Sgd { lr: 0.001, decay: None }.build());
                        let xin = tensor_of(c.input, &x);
                        guard(|| n.learn(&vec![&xin], &vec![&target], None, 1, 1, None).0[0])
                    };
                    match (step(&cfg_d, &params), step(&plain_d, &ps)) {
                        (Ok(l1), Ok(l2)) => {
                            out.count("overwrite_vs_unrolled_comparisons_in_training_mode_with_dropout", 1);
                            if l1.to_bits() != l2.to_bits() && !(l1.is_nan() && l2.is_nan()) {
                                out.viol(
                                    "loop:overwrite-differs-from-unrolled:training",
                                    format!("{} with dropout 0.5 on the looped layers: the training-mode forward pass gives loss {:e}, the plain network with layers {}..{} repeated {} times gives {:e}", cfg.describe(), l1, a, b, iters + 1, l2),
                                    case_json(&cfg, &params, &x),
                                );
                            }
                        }
                        (Err(m1), Err(_)) => out.cover("training_mode_twins_both_refused", short(&m1, 50)),
                        (Err(m), Ok(_)) => out.viol("loop:overwrite-differs-from-unrolled:training", format!("{} with dropout on the looped layers: learn() panicked ({}), on the unrolled plain network it does not", cfg.describe(), short(&m, 120)), case_json(&cfg, &params, &x)),
                        (Ok(_), Err(m)) => out.cover("training_mode_unrolled_twin_refused", short(&m, 50)),
                    }
                }
            }
        }
        if idx < 5 {
            out.sample = Some(case_json(&cfg, &params, &x));
        }
        out
    }
    fn finish(&self, _tier: Tier, _seed: u64, agg: &mut Agg) {
        agg.extra.push(("grid_points_covered_of_120".into(), J::Int(agg.set_size("grid") as i64)));
        agg.require(agg.set_size("grid") >= 110, format!("grid coverage {} of 120", agg.set_size("grid")));
        agg.require(agg.count("ranges_containing_max_pool") >= 50, "too few ranges with max-pool".into());
        agg.require(agg.count("overwrite_vs_unrolled_comparisons") >= 100, "too few unrolled comparisons".into());
        agg.require(agg.count("networks_with_several_loop_connections") >= 1000, "too few networks with several loop connections".into());
        agg.require(agg.count("several_overwrite_vs_unrolled_comparisons") >= 50, "too few unrolled comparisons with several loops".into());
    }
}
