//! C09 — dropout never leaks into prediction or validation.

use crate::cfg::*;
use crate::core::*;
use crate::gen::*;
use crate::json::J;
use crate::lib_build::*;
use crate::rng::Rng;
use crate::train::*;
use neurons::network::Network;
use neurons::tensor::Tensor;
use neurons::verif::{self, Event};

pub struct C09;

/// Random layer sequence over all layer kinds with 0..4 dense layers at varying positions,
/// wide enough for the fixed-seed dropout mask to drop something.
fn dropout_net(rng: &mut Rng) -> NetCfg {
    let acts = [Act::Tanh, Act::Sigmoid, Act::Leaky, Act::Relu, Act::Linear];
    for _ in 0..200 {
        let spatial = rng.chance(0.65);
        let input = if spatial { Sh::Sp(rng.range(1, 2), rng.range(3, 5), rng.range(3, 5)) } else { Sh::Flat(rng.range(3, 8)) };
        let depth = rng.range(1, 5);
        let mut layers: Vec<LCfg> = Vec::new();
        let mut cur = input;
        for li in 0..depth {
            let choice = rng.range(0, 5);
            let next: Option<LCfg> = match (choice, cur) {
                (0 | 1, _) if !(li == 0 && !cur.is_flat()) => Some(LCfg::Dense { n: rng.range(4, 9), act: *rng.pick(&acts), bias: rng.bool(), dropout: None }),
                (5, Sh::Flat(n)) | (5, Sh::Sp(_, _, n)) if n > 0 => {
                    // feedback block on the current shape
                    let blen = rng.range(1, 2);
                    let body = preserving_body(rng, cur, blen, &acts, false);
                    // (with and without internal skips: output skips combine what the last body
                    // layer emitted - dropped units included, while training - with earlier outputs)
                    Some(LCfg::Feedback { body, loops: rng.range(1, 3), inskips: rng.bool(), outskips: rng.bool(), acc: *rng.pick(&[Acc::Mean, Acc::Mean, Acc::Add]) })
                }
                (_, Sh::Sp(c, h, w)) => {
                    let k = rng.range(0, 3);
                    let l = match k {
                        0 => LCfg::Conv { filters: rng.range(1, 3), kernel: (2, 2), stride: (1, 1), padding: (rng.range(0, 1), rng.range(0, 1)), dilation: (1, 1), act: *rng.pick(&acts), dropout: None },
                        1 => LCfg::Deconv { filters: rng.range(1, 3), kernel: (2, 2), stride: (1, 1), padding: (0, 0), act: *rng.pick(&acts), dropout: None },
                        2 => LCfg::Conv { filters: c, kernel: (3, 3), stride: (1, 1), padding: (1, 1), dilation: (1, 1), act: *rng.pick(&acts), dropout: None },
                        _ => LCfg::Pool { kernel: (2, 2), stride: (1, 1) },
                    };
                    let _ = (h, w);
                    Some(l)
                }
                _ => None,
            };
            if let Some(l) = next {
                if let Ok(o) = out_shape(&l, match normalise_input(&l, cur) { Ok(s) => s, Err(_) => continue }) {
                    if o.count() <= 120 && o.count() >= 1 {
                        layers.push(l);
                        cur = o;
                    }
                }
            }
        }
        // output layer: dense
        // (soft-max output layers, and soft-max hidden dense layers, may carry dropout like any other)
        layers.push(LCfg::Dense { n: rng.range(1, 3), act: *rng.pick(&[Act::Linear, Act::Tanh, Act::Sigmoid, Act::Softmax]), bias: true, dropout: None });
        let cfg = NetCfg::plain(input, layers);
        if cfg.layers.len() >= 2 && cfg.shapes().is_ok() {
            return cfg;
        }
    }
    NetCfg::plain(Sh::Flat(4), vec![LCfg::Dense { n: 6, act: Act::Tanh, bias: true, dropout: None }, LCfg::Dense { n: 2, act: Act::Linear, bias: true, dropout: None }])
}

fn set_dropout(l: &mut LCfg, d: Option<f32>) -> bool {
    match l {
        LCfg::Feedback { body, .. } => {
            let mut any = false;
            for b in body.iter_mut() {
                any |= set_dropout(b, d);
            }
            any
        }
        LCfg::Pool { .. } => false,
        _ => {
            l.set_dropout(d);
            true
        }
    }
}

fn any_flag(net: &Network) -> bool {
    verif::training_flags(net).iter().any(|f| *f)
}

/// Has training driven this network out of the finite range (a non-finite parameter, or a
/// non-finite output on one of the probe inputs)? Panics raised on such a network (the
/// documented "Loss is NaN", arg-max over NaN scores) say nothing about dropout.
fn diverged(net: &Network, probes: &[&Tensor]) -> bool {
    let params_bad = guard(|| get_params(net).iter().any(|(_, v)| v.iter().any(|x| !x.is_finite()))).unwrap_or(false);
    params_bad || probes.iter().any(|x| matches!(guard(|| net.predict(x)), Ok(p) if flat(&p).iter().any(|v| !v.is_finite())))
}

impl Monitor for C09 {
    fn id(&self) -> &'static str {
        "C09"
    }
    fn gens(&self, tier: Tier) -> Vec<(&'static str, u64)> {
        vec![("trainings", tier.pick(6000, 120_000))]
    }
    fn rule(&self) -> &'static str {
        "case = random layer sequence (dense / convolution / deconvolution / max-pool / feedback block with and without input / output skips, 0..4 dense layers at varying positions, dense output layer; every third network additionally gets one or two skip connections (often chained or sharing a source) and / or a loop connection over one layer, which may itself be the target of a skip connection) (every sixth case instead: a chain of equal-shape layers with a loop - mostly with input skips - over a layer that is also the target of a skip connection and sits right behind a dropout layer) with dropout (rate from {0.1,0.5,0.9,1.0}) on a random non-empty subset of the dropout-capable layers, 4..12 training and 1..70 validation samples, 1..4 epochs, batch 1..5, SGD; with and (every 4th case) without validation data; every 8th case uses tolerance 1 so that training stops early after epoch 2; after all checks a second learn() call is made on the same network and checked the same way, followed by a learn() call with 0 (every third case: -1) epochs after which the flags must be off and predict() must equal the dropout-free twin. (1) hooked state: every forward pass of a validation sample inside learn() must see all training flags false (the flags seen by the forward passes of training samples are recorded as evidence that dropout was live, not judged), flags all false after learn() returns and before/during/after stand-alone validate()/predict(). (2) differential: a twin network without dropout receives the trained weights; the validation loss/accuracy learn() reported for its last epoch must equal validate() on the twin bit-for-bit, predict() must agree on probe inputs, and this is repeated for every prefix e <= E by deterministic re-training (prefix losses must coincide). (3) validate() right after learn() equals the last reported epoch. A case is non-trivial when the fixed-seed mask really changes the training forward pass (checked by comparing a training-mode forward with the twin). Distinct = distinct configuration descriptors."
    }
    fn assumptions(&self) -> Vec<&'static str> {
        vec!["the library's dropout mask is a deterministic function of the tensor size (generator re-seeded with a constant), which makes re-training prefixes reproducible", "bit-for-bit equality is demanded because the statement is an identity (same weights, same code path, dropout off)"]
    }
    fn run(&self, gen: &str, seed: u64, idx: u64, _tier: Tier) -> Out {
        let mut rng = Rng::stream(seed, gen, idx);
        let mut base = dropout_net(&mut rng);
        // every third network: a skip connection and / or a loop connection (dropout must stay
        // out of prediction and validation whatever else the architecture contains)
        let mut structure = String::new();
        if idx % 3 == 1 {
            if let Ok(sh) = base.shapes() {
                let plain = |l: &LCfg| !matches!(l, LCfg::Feedback { .. });
                let nl = base.layers.len();
                let skip_c: Vec<(usize, usize)> = (0..nl).flat_map(|a| (a + 1..nl).map(move |b| (a, b))).filter(|(a, b)| sh[*a].0.count() == sh[*b].0.count() && plain(&base.layers[*a]) && plain(&base.layers[*b])).collect();
                let loop_c: Vec<usize> = (0..nl.saturating_sub(1)).filter(|b| sh[*b].0 == sh[*b].1 && !sh[*b].2 && plain(&base.layers[*b]) && !matches!(base.layers[*b], LCfg::Pool { .. })).collect();
                let mut trial = base.clone();
                if !skip_c.is_empty() && rng.chance(0.7) {
                    let first = *rng.pick(&skip_c);
                    trial.skips = vec![first];
                    // often a second connection, preferably chained to the first (its source is
                    // the first one's target) or sharing its source
                    if rng.chance(0.6) {
                        let chained: Vec<(usize, usize)> = skip_c.iter().cloned().filter(|(a, b)| (*a == first.1 || *a == first.0) && *b != first.1).collect();
                        let pool = if chained.is_empty() { &skip_c } else { &chained };
                        let second = *rng.pick(pool);
                        if second.1 != first.1 {
                            trial.skips.push(second);
                        }
                    }
                    trial.skipacc = *rng.pick(&[Acc::Add, Acc::Mean]);
                }
                if !loop_c.is_empty() && rng.chance(0.6) {
                    // the looped layer may itself be the target of a skip connection (its recorded
                    // input is then the accumulated one, which the loop's input skip re-injects)
                    let targets: Vec<usize> = loop_c.iter().cloned().filter(|b| trial.skips.iter().any(|(_, t)| t == b)).collect();
                    let b = if !targets.is_empty() && rng.bool() { *rng.pick(&targets) } else { *rng.pick(&loop_c) };
                    trial.loops = vec![(b, b, rng.range(1, 2), rng.bool())];
                    trial.loopacc = *rng.pick(&[Acc::Add, Acc::Mean]);
                }
                if (!trial.skips.is_empty() || !trial.loops.is_empty()) && trial.shapes().is_ok() && build(&trial, None).is_ok() {
                    structure = format!("{}{}", if trial.skips.is_empty() { "" } else { "skip " }, if trial.loops.is_empty() { "" } else { "loop" });
                    base = trial;
                }
            }
        }
        // every sixth case: a chain of equal-shape layers with a loop over one layer (b >= 1) that
        // is also the target of a skip connection; the layer in front of it gets dropout below
        let mut force_dropout_at: Option<usize> = None;
        if idx % 6 == 4 {
            let acts = [Act::Tanh, Act::Sigmoid, Act::Leaky, Act::Relu, Act::Linear];
            let depth = rng.range(3, 5);
            let chain_cfg = chain(&mut rng, (idx / 6 % 2) as usize, depth, &acts, false, true);
            if let Ok(sh) = chain_cfg.shapes() {
                let nl = chain_cfg.layers.len();
                let cands: Vec<usize> = (1..nl - 1).filter(|b| sh[*b].0 == sh[*b].1 && !sh[*b].2).collect();
                if !cands.is_empty() {
                    let b = *rng.pick(&cands);
                    let a = rng.range(0, b - 1);
                    let mut t = chain_cfg.clone();
                    t.skips = vec![(a, b)];
                    t.skipacc = *rng.pick(&[Acc::Add, Acc::Mean, Acc::Sub]);
                    t.loops = vec![(b, b, rng.range(1, 2), rng.chance(0.8))];
                    t.loopacc = *rng.pick(&[Acc::Add, Acc::Mean]);
                    if t.shapes().is_ok() && build(&t, None).is_ok() {
                        base = t;
                        structure = "skip loop".to_string();
                        force_dropout_at = Some(b - 1);
                    }
                }
            }
        }
        let mut cfg = base.clone();
        // dropout on a random non-empty subset of capable layers
        let mut placed = Vec::new();
        for _ in 0..10 {
            placed.clear();
            for (i, l) in cfg.layers.iter_mut().enumerate() {
                if rng.chance(0.5) {
                    let rate = *rng.pick(&[0.1f32, 0.5, 0.9, 1.0]);
                    if set_dropout(l, Some(rate)) {
                        placed.push((i, rate));
                    }
                } else {
                    set_dropout(l, None);
                }
            }
            // never put rate 1.0 on the output layer only (network output would be constant 0 - still legal, keep)
            if !placed.is_empty() {
                break;
            }
        }
        if let Some(k) = force_dropout_at {
            if !placed.iter().any(|(i, _)| *i == k) && set_dropout(&mut cfg.layers[k], Some(0.5)) {
                placed.push((k, 0.5));
                placed.sort_by_key(|p| p.0);
            }
        }
        let epochs = rng.range(1, 4);
        let batch = rng.range(1, 5);
        let n_train = rng.range(4, 12);
        let n_val = *rng.pick(&[1usize, 2, 5, 9, 70]);
        let with_val = idx % 4 != 3;
        let tolerance: i32 = if idx % 8 == 5 { 1 } else { 100 };
        let outputs = match cfg.layers.last().unwrap() {
            LCfg::Dense { n, .. } => *n,
            _ => 1,
        };
        let train = random_data(&mut rng, cfg.input, n_train, outputs, Obj::MSE, false);
        let mut val = random_data(&mut rng, cfg.input, n_val, outputs, Obj::MSE, false);
        for x in val.xs.iter_mut() {
            x[0] += 3.0;
        }
        let val = DataSet::new(val.sh, val.xs.clone(), val.ts.clone());
        let params = gen_params(&cfg, &mut rng, -0.8, 0.8).unwrap();
        let lr = *rng.pick(&[0.05f32, 0.01]);
        let dense_positions: Vec<usize> = cfg.layers.iter().enumerate().filter(|(_, l)| matches!(l, LCfg::Dense { .. })).map(|(i, _)| i).collect();
        let desc = format!("{} | dropout at {:?} | E{} B{} train{} val{}", cfg.describe(), placed, epochs, batch, n_train, if with_val { n_val } else { 0 });
        let mut out = Out::new(desc.clone());
        if let Some((b, _, _, true)) = cfg.loops.first().cloned() {
            if b >= 1 && cfg.skips.iter().any(|(_, t)| *t == b) && placed.iter().any(|(i, _)| *i + 1 == b) {
                out.count("loops_with_input_skips_on_a_skip_target_behind_a_dropout_layer", 1);
            }
        }
        if !structure.is_empty() {
            out.count("networks_with_a_skip_or_loop_connection", 1);
            out.cover("extra_structure", structure.trim().to_string());
        }
        out.cover("dense_layers_before_the_first_dropout_layer", format!("{}", dense_positions.iter().filter(|p| placed.first().map(|(i, _)| **p < *i).unwrap_or(false)).count()));
        out.cover("number_of_dense_layers", dense_positions.len().to_string());
        out.cover("architectures", cfg.architecture());
        if placed.is_empty() {
            out.nontrivial = false;
            return out;
        }
        let detail = || J::obj().set("case", J::s(&desc)).set("parameters", params_json(&params));
        let mk = |c: &NetCfg, p: &[P]| -> Result<Network, String> {
            let mut n = build(c, Some(p))?;
            n.set_objective(lib_obj(Obj::MSE), None);
            n.set_optimizer(OptCfg::Sgd { lr, decay: None }.build());
            Ok(n)
        };
        let (xr, tr) = (train.x_refs(), train.t_refs());
        let (vxr, vtr) = (val.x_refs(), val.t_refs());
        let ttags = train.tags();
        let vtags = val.tags();
        // train A for e epochs; returns net, result, events
        // (every validation and training input: a diverging run may overflow on one input only)
        let probes: Vec<&Tensor> = val.x_tensors.iter().chain(train.x_tensors.iter()).collect();
        let train_a = |e: usize| -> Result<(Network, (Vec<f32>, Vec<f32>, Vec<f32>), Vec<Event>), String> {
            let mut a = mk(&cfg, &params)?;
            let (r, ev) = in_cached_pool(3, || {
                guard(|| {
                    let validation: Option<(&Vec<&Tensor>, &Vec<&Tensor>, i32)> = if with_val { Some((&vxr, &vtr, tolerance)) } else { None };
                    a.learn(&xr, &tr, validation, batch, e as i32, None)
                })
            });
            match r {
                Ok(r) => Ok((a, r, ev)),
                Err(m) if m.contains("Loss is NaN") || diverged(&a, &probes) => Err(format!("DIVERGED {}", m)),
                Err(m) => Err(m),
            }
        };
        let (mut a, (tl, vl, va), events) = match train_a(epochs) {
            Ok(r) => r,
            Err(m) => {
                if m.starts_with("DIVERGED") {
                    out.nontrivial = false;
                    out.count("runs_aborted_on_a_diverged_network_(NaN_loss_panic_or_non-finite_outputs)", 1);
                } else {
                    out.viol("dropout:learn-panic", format!("learn panicked: {} [{}]", short(&m, 160), desc), detail());
                }
                return out;
            }
        };
        out.count("trainings", 1);
        // epochs actually run (early stopping may cut the run short)
        let epochs = tl.len().min(epochs).max(1);
        if tl.len() < epochs || (with_val && tolerance == 1) {
            out.count("trainings_that_took_the_early_stop_path", 1);
        }
        // non-triviality: does dropout change a training-mode forward pass at all?
        // (observed through the event-free public API: a network in training mode is not
        // reachable from outside, so compare the first epoch's training loss with the twin's)
        let twin_first = mk(&base, &params).and_then(|mut n| guard(|| n.learn(&xr, &tr, None, batch, 1, None)));
        let changes = match &twin_first {
            Ok((l, _, _)) => l[0].to_bits() != tl[0].to_bits(),
            Err(_) => true,
        };
        if !changes {
            out.nontrivial = false;
            out.count("cases_where_the_mask_dropped_nothing", 1);
        }
        // (1) hooked state
        let mut bad_val = 0;
        let mut bad_train = 0;
        for e in events.iter() {
            if let Event::Forward { tag, training, .. } = e {
                if vtags.contains(tag) {
                    out.count("validation_forward_passes_observed", 1);
                    if training.iter().any(|f| *f) {
                        bad_val += 1;
                        if bad_val == 1 {
                            let which: Vec<usize> = training.iter().enumerate().filter(|(_, f)| **f).map(|(i, _)| i).collect();
                            out.viol(
                                "dropout:validation-forward-in-training-mode",
                                format!("a validation forward pass inside learn() ran with the training flag set on (unrolled) layers {:?} of {} [{}]", which, training.len(), desc),
                                detail(),
                            );
                        }
                    }
                } else if ttags.contains(tag) {
                    out.count("training_forward_passes_observed", 1);
                    // observation only (evidence that dropout was live in training passes): the
                    // property confines dropout to training passes, it does not demand that every
                    // configured layer drops something there
                    let caps = capable_flags(&cfg);
                    if training.len() == caps.len() && training.iter().zip(caps.iter()).any(|(f, c)| *c && !*f) {
                        bad_train += 1;
                        if bad_train == 1 {
                            out.count("cases_with_a_training_pass_in_which_a_dropout_capable_layer_was_in_inference_mode", 1);
                        }
                    } else {
                        out.count("training_forward_passes_with_every_dropout_capable_layer_in_training_mode", 1);
                    }
                }
            }
        }
        if any_flag(&a) {
            out.viol("dropout:flags-left-on-after-learn", format!("training flags {:?} after learn() returned [{}]", verif::training_flags(&a), desc), detail());
        }
        // (2)+(3) differential against the dropout-free twin
        let check_epoch = |a: &mut Network, e: usize, rep_vl: f32, rep_va: f32, out: &mut Out| {
            let trained: Vec<P> = {
                // read A's weights back into the P structure of the base configuration
                let got = get_params(a);
                let mut flatv: Vec<f32> = Vec::new();
                for (_, v) in got.iter() {
                    flatv.extend(v);
                }
                let mut ps = params.clone();
                let mut pos = 0;
                for (li, p) in ps.iter_mut().enumerate() {
                    // feedback blocks: all copies are tied, take the first copy
                    let copies = match &cfg.layers[li] {
                        LCfg::Feedback { loops, .. } => *loops,
                        _ => 1,
                    };
                    let n = p.count();
                    p.set_flat(&flatv[pos..pos + n]);
                    pos += n * copies;
                }
                ps
            };
            let mut twin = match mk(&base, &trained) {
                Ok(t) => t,
                Err(m) => {
                    out.inconclusive = Some(format!("twin build failed: {}", m));
                    return;
                }
            };
            let (tv, _) = in_cached_pool(3, || guard(|| twin.validate(&vxr, &vtr, 1e-6)));
            let (av, aev) = in_cached_pool(3, || {
                guard(|| {
                    let before = any_flag(a);
                    let r = a.validate(&vxr, &vtr, 1e-6);
                    (before, r, any_flag(a))
                })
            });
            match (tv, av) {
                (Ok((tl_, ta_)), Ok((before, (al_, aa_), after))) => {
                    out.count("epochs_compared_with_the_dropout_free_twin", 1);
                    if with_val && (rep_vl.to_bits() != tl_.to_bits() || rep_va.to_bits() != ta_.to_bits()) {
                        out.viol(
                            "dropout:reported-validation-differs-from-dropout-free",
                            format!("epoch {}: learn() reported validation loss {:e} / accuracy {:e}; the same weights without dropout validate to {:e} / {:e} [{}]", e, rep_vl, rep_va, tl_, ta_, desc),
                            detail(),
                        );
                    }
                    if al_.to_bits() != tl_.to_bits() || aa_.to_bits() != ta_.to_bits() {
                        out.viol("dropout:validate-after-learn", format!("epoch {}: validate() on the trained network gives {:e} / {:e}, the dropout-free twin {:e} / {:e} [{}]", e, al_, aa_, tl_, ta_, desc), detail());
                    }
                    if with_val && al_.to_bits() != rep_vl.to_bits() {
                        out.viol("dropout:validate-after-learn-differs-from-reported", format!("epoch {}: validate() right after learn() gives {:e}, learn() reported {:e} [{}]", e, al_, rep_vl, desc), detail());
                    }
                    if before || after || aev.iter().any(|ev| matches!(ev, Event::Forward { training, .. } if training.iter().any(|f| *f))) {
                        out.viol("dropout:standalone-validate-in-training-mode", format!("stand-alone validate(): flags before {} / after {} / during a forward pass [{}]", before, after, desc), detail());
                    }
                }
                (Err(m), _) | (_, Err(m)) => {
                    if diverged(a, &probes) {
                        out.count("checks_skipped_on_a_diverged_network", 1);
                        return;
                    }
                    out.viol("dropout:validate-panic", format!("validate panicked: {} [{}]", short(&m, 160), desc), detail())
                }
            }
            // batched prediction
            {
                let probes: Vec<&Tensor> = val.x_tensors.iter().take(70).collect();
                match (guard(|| a.predict_batch(&probes)), guard(|| twin.predict_batch(&probes))) {
                    (Ok(p), Ok(q)) => {
                        if p.len() != q.len() || p.iter().zip(q.iter()).any(|(x, y)| !bits_eq(&flat(x), &flat(y))) {
                            out.viol("dropout:predict_batch-differs-from-dropout-free", format!("epoch {}: predict_batch() of the trained network differs from the identical network without dropout [{}]", e, desc), detail());
                        }
                    }
                    (Err(m), _) | (_, Err(m)) => out.viol("dropout:predict-panic", format!("predict_batch panicked: {} [{}]", short(&m, 160), desc), detail()),
                }
            }
            // predictions on probe inputs
            for x in val.x_tensors.iter().take(4).chain(train.x_tensors.iter().take(2)) {
                match (guard(|| a.predict(x)), guard(|| twin.predict(x))) {
                    (Ok(p), Ok(q)) => {
                        out.count("probe_predictions_compared", 1);
                        if !bits_eq(&flat(&p), &flat(&q)) {
                            out.viol("dropout:predict-differs-from-dropout-free", format!("epoch {}: predict() of the trained network differs from the identical network without dropout [{}]", e, desc), detail());
                            break;
                        }
                    }
                    (Err(m), _) | (_, Err(m)) => {
                        out.viol("dropout:predict-panic", format!("predict panicked: {} [{}]", short(&m, 160), desc), detail());
                        break;
                    }
                }
            }
        };
        let (last_vl, last_va) = if with_val { (vl[epochs - 1], va[epochs - 1]) } else { (0.0, 0.0) };
        check_epoch(&mut a, epochs, last_vl, last_va, &mut out);
        // a second learn() call on the same (already trained) network
        {
            let (r2, ev2) = in_cached_pool(3, || {
                guard(|| {
                    let validation: Option<(&Vec<&Tensor>, &Vec<&Tensor>, i32)> = if with_val { Some((&vxr, &vtr, 100)) } else { None };
                    a.learn(&xr, &tr, validation, batch, 1, None)
                })
            });
            match r2 {
                Ok((_, vl2, va2)) => {
                    out.count("second_learn_calls", 1);
                    if ev2.iter().any(|e| matches!(e, Event::Forward { tag, training, .. } if vtags.contains(tag) && training.iter().any(|f| *f))) {
                        out.viol("dropout:validation-forward-in-training-mode:second-learn", format!("second learn() call: a validation forward pass ran in training mode [{}]", desc), detail());
                    }
                    if any_flag(&a) {
                        out.viol("dropout:flags-left-on-after-learn", format!("training flags {:?} after the second learn() call [{}]", verif::training_flags(&a), desc), detail());
                    }
                    let (rv, ra) = if with_val { (vl2[0], va2[0]) } else { (0.0, 0.0) };
                    check_epoch(&mut a, epochs + 1, rv, ra, &mut out);
                }
                Err(m) => {
                    if !m.contains("Loss is NaN") && !diverged(&a, &probes) {
                        out.viol("dropout:learn-panic", format!("second learn() call panicked: {} [{}]", short(&m, 160), desc), detail());
                    }
                }
            }
        }
        // a learn() call that trains nothing (0 epochs, as a resumed run with no epochs left
        // would make; every third case a negative count): it must leave the network predicting
        // like its dropout-free twin
        {
            let none: i32 = if idx % 3 == 0 { -1 } else { 0 };
            let (r0, _) = in_cached_pool(3, || {
                guard(|| {
                    let validation: Option<(&Vec<&Tensor>, &Vec<&Tensor>, i32)> = if with_val { Some((&vxr, &vtr, 100)) } else { None };
                    a.learn(&xr, &tr, validation, batch, none, None)
                })
            });
            match r0 {
                Ok(_) => {
                    out.count("learn_calls_with_no_epochs", 1);
                    if any_flag(&a) {
                        out.viol("dropout:flags-left-on-after-learn:no-epochs", format!("training flags {:?} after learn() with {} epochs [{}]", verif::training_flags(&a), none, desc), detail());
                    }
                    let trained = read_params(&a, &cfg, &params);
                    if let Ok(twin) = mk(&base, &trained) {
                        for x in probes.iter().take(6) {
                            if let (Ok(p), Ok(q)) = (guard(|| a.predict(x)), guard(|| twin.predict(x))) {
                                if !bits_eq(&flat(&p), &flat(&q)) {
                                    out.viol("dropout:predict-differs-from-dropout-free:after-no-epochs", format!("after learn() with {} epochs predict() differs from the identical network without dropout [{}]", none, desc), detail());
                                    break;
                                }
                            }
                        }
                    }
                }
                Err(m) => {
                    // (whether a call without epochs is accepted at all is not part of the property)
                    out.cover("learn_with_no_epochs_refused", short(&m, 60));
                }
            }
        }
        // every shorter prefix
        for e in 1..epochs {
            match train_a(e) {
                Ok((mut ae, (tle, vle, vae), _)) => {
                    if tle.iter().zip(tl.iter()).any(|(x, y)| x.to_bits() != y.to_bits()) || (with_val && vle.iter().zip(vl.iter()).any(|(x, y)| x.to_bits() != y.to_bits())) {
                        out.viol("dropout:prefix-not-reproducible", format!("training {} epochs does not reproduce the first {} epochs of the {}-epoch run [{}]", e, e, epochs, desc), detail());
                        break;
                    }
                    let (rv, ra) = if with_val { (vle[e - 1], vae[e - 1]) } else { (0.0, 0.0) };
                    check_epoch(&mut ae, e, rv, ra, &mut out);
                }
                Err(m) if m.starts_with("DIVERGED") => {
                    out.count("checks_skipped_on_a_diverged_network", 1);
                    break;
                }
                Err(m) => {
                    out.viol("dropout:learn-panic", format!("learn({} epochs) panicked: {} [{}]", e, short(&m, 160), desc), detail());
                    break;
                }
            }
        }
        if idx < 3 {
            out.sample = Some(detail().set("train_loss", J::f32s(&tl)).set("validation_loss", J::f32s(&vl)));
        }
        out
    }
    fn finish(&self, _tier: Tier, _seed: u64, agg: &mut Agg) {
        agg.require(agg.count("trainings") >= 800, format!("{} trainings", agg.count("trainings")));
        agg.require(agg.count("validation_forward_passes_observed") >= 5000, "too few validation forward passes observed".into());
        agg.require(agg.set_size("number_of_dense_layers") >= 4, "number of dense layers not varied".into());
    }
}

/// One entry per (unrolled) layer in the order of `verif::training_flags`: dropout-capable?
fn capable_flags(cfg: &NetCfg) -> Vec<bool> {
    let mut out = Vec::new();
    for l in cfg.layers.iter() {
        match l {
            LCfg::Feedback { body, loops, .. } => {
                for _ in 0..*loops {
                    for b in body {
                        out.push(!matches!(b, LCfg::Pool { .. }));
                    }
                }
            }
            LCfg::Pool { .. } => out.push(false),
            _ => out.push(true),
        }
    }
    out
}
