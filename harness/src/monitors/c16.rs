//! C16 — skip connections combine source and target inputs as configured.

use crate::cfg::*;
use crate::core::*;
use crate::gen::*;
use crate::json::J;
use crate::lib_build::*;
use crate::monitors::c01::{grad_ok, lib_grad_at, well_conditioned};
use crate::monitors::c02::{cmp_e, sh_dims};
use crate::monitors::c11::case_json;
use crate::refmodel::*;
use crate::rng::Rng;
use neurons::network::Network;
use neurons::tensor::Tensor;

pub struct C16;

/// All (a, b) with a <= b whose layer inputs have equal element counts.
fn candidates(cfg: &NetCfg) -> Vec<(usize, usize)> {
    let sh = cfg.shapes().unwrap();
    let mut out = Vec::new();
    for a in 0..sh.len() {
        for b in a..sh.len() {
            if sh[a].0.count() == sh[b].0.count() {
                out.push((a, b));
            }
        }
    }
    out
}

fn rep_kind(cfg: &NetCfg, a: usize, b: usize) -> String {
    let sh = cfg.shapes().unwrap();
    let differ = !sh[a].0.is_flat() && !sh[b].0.is_flat() && sh[a].0 != sh[b].0;
    format!("{}->{}{}", if sh[a].0.is_flat() { "flat" } else { "spatial" }, if sh[b].0.is_flat() { "flat" } else { "spatial" }, if differ { " (different spatial shapes)" } else { "" })
}

fn predict_matches(net: &Network, cfg: &NetCfg, params: &[P], x: &[f32], raw: bool) -> Result<Option<(usize, f32, f64, f64)>, String> {
    let mut r: RNet<E> = RNet::plain(cfg, params);
    r.raw_sources = raw;
    let want = r.forward(&Val::from_f32(cfg.input, x));
    let p = guard(|| net.predict(&tensor_of(cfg.input, x)))?;
    if shape_dims(&p.shape) != sh_dims(want.output().sh) {
        return Ok(Some((usize::MAX, 0.0, 0.0, 0.0)));
    }
    Ok(cmp_e(&flat(&p), &want.output().d))
}

fn values_case(rng: &mut Rng, idx: u64, out: &mut Out) {
    let acc = ACCS[(idx % 5) as usize];
    let kind = ((idx / 5) % 4) as usize;
    let depth = rng.range(2, 6);
    let acts = [Act::Tanh, Act::Sigmoid, Act::Linear, Act::Leaky, Act::Relu];
    let end_dense = rng.bool();
    let mut cfg = chain(rng, kind, depth, &acts, true, end_dense);
    if idx % 7 == 3 {
        wrap_blocks(rng, &mut cfg, 0.4);
    }
    cfg.skipacc = acc;
    // connections may be added after build(): the skip accumulation is kept as configured; the
    // loop accumulation concerns nothing here and is set to an arbitrary value
    cfg.keep_default_accumulations = true;
    cfg.loopacc = ACCS[((idx / 3) % 5) as usize];
    if cfg.layers.iter().any(|l| matches!(l, LCfg::Feedback { .. })) {
        out.count("networks_with_feedback_blocks_as_possible_sources_or_targets", 1);
    }
    let cands = candidates(&cfg);
    // one or two connections with sources and targets disjoint from each other
    let mut skips: Vec<(usize, usize)> = Vec::new();
    let want = rng.range(1, 2);
    for _ in 0..20 {
        if skips.len() >= want {
            break;
        }
        let (a, b) = *rng.pick(&cands);
        let clash = skips.iter().any(|(x, y)| *x == a || *y == b || *x == b || *y == a);
        if !clash {
            skips.push((a, b));
        }
    }
    cfg.skips = skips.clone();
    // every fourth case: a loop connection next to the skip connections, preferably ending right
    // in front of a skip target (the target then combines the LOOPED output with its source);
    // no connection starts inside the looped range or ends behind its first layer
    if idx % 4 == 1 {
        if let Ok(shapes) = cfg.shapes() {
            let n = cfg.layers.len();
            let mut ranges: Vec<(usize, usize)> = Vec::new();
            for lo in 0..n {
                for hi in lo..n.min(lo + 3) {
                    let plain = (lo..=hi).all(|k| !matches!(cfg.layers[k], LCfg::Feedback { .. }));
                    let free = skips.iter().all(|(a, b)| !(lo..=hi).contains(a) && !(lo + 1..=hi).contains(b));
                    if plain && free && shapes[lo].0 == shapes[hi].1 {
                        ranges.push((lo, hi));
                    }
                }
            }
            let behind: Vec<(usize, usize)> = ranges.iter().cloned().filter(|(_, hi)| skips.iter().any(|(_, b)| *b == hi + 1)).collect();
            let pick = if !behind.is_empty() && rng.chance(0.7) { Some(*rng.pick(&behind)) } else if !ranges.is_empty() { Some(*rng.pick(&ranges)) } else { None };
            if let Some((lo, hi)) = pick {
                cfg.loops = vec![(hi, lo, rng.range(1, 2), rng.bool())];
                out.count("networks_with_a_loop_next_to_the_skip_connections", 1);
                if skips.iter().any(|(_, b)| *b == hi + 1) {
                    out.count("skip_targets_directly_behind_a_loop", 1);
                }
                if skips.iter().any(|(_, b)| *b == lo) {
                    out.count("skip_targets_at_the_first_looped_layer", 1);
                }
            }
        }
    }
    out.key = cfg.describe();
    for (a, b) in skips.iter() {
        out.cover("accumulation_x_representation", format!("{}/{}", acc.name(), rep_kind(&cfg, *a, *b)));
        out.cover("index_pairs", format!("{}->{} of {}", a, b, cfg.layers.len()));
        if a == b {
            out.count("self_connections", 1);
        }
    }
    let params = gen_params(&cfg, rng, -1.0, 1.0).unwrap();
    let x = varied_input(rng, cfg.input);
    let net = match build(&cfg, Some(&params)) {
        Ok(n) => n,
        Err(m) => {
            let pool_source = skips.iter().any(|(a, _)| matches!(cfg.layers[*a], LCfg::Pool { .. }));
            let sig = if pool_source && m.contains("Unknown shape") { "skip:rejected:maxpool-source".to_string() } else { "skip:rejected:valid-connection".to_string() };
            out.viol(&sig, format!("building {} (connections with distinct sources and targets, equal element counts) was refused: {}", cfg.describe(), short(&m, 160)), case_json(&cfg, &params, &x));
            return;
        }
    };
    match predict_matches(&net, &cfg, &params, &x, false) {
        Err(m) => out.viol(&format!("skip:forward-panic:{}", acc.name()), format!("predict of {} panicked: {}", cfg.describe(), short(&m, 200)), case_json(&cfg, &params, &x)),
        Ok(Some((i, got, exp, tol))) => out.viol(
            &format!("skip:value:{}", acc.name()),
            format!("{}: output[{}] = {:e}, reference with the skip connections gives {:e} (bound {:e})", cfg.describe(), i, got, exp, tol),
            case_json(&cfg, &params, &x),
        ),
        Ok(None) => out.count("predictions_matching_the_reference_with_skips", 1),
    }
    if idx < 5 {
        out.sample = Some(case_json(&cfg, &params, &x));
    }
}

fn bookkeeping_case(rng: &mut Rng, idx: u64, out: &mut Out) {
    let kind = (idx % 3) as usize;
    let acts = [Act::Tanh, Act::Sigmoid, Act::Linear];
    let depth = rng.range(3, 6);
    let mut cfg = chain(rng, kind, depth, &acts, (idx / 3) % 2 == 1, true);
    cfg.skipacc = *rng.pick(&[Acc::Add, Acc::Sub, Acc::Mul, Acc::Mean]);
    cfg.keep_default_accumulations = true;
    cfg.loopacc = ACCS[((idx / 3) % 5) as usize];
    let cands = candidates(&cfg);
    let params = gen_params(&cfg, rng, -1.0, 1.0).unwrap();
    let x = varied_input(rng, cfg.input);
    let mut net = match build(&cfg, Some(&params)) {
        Ok(n) => n,
        Err(m) => {
            out.viol("skip:bookkeeping:create-panic", format!("{}: {}", cfg.describe(), short(&m, 160)), J::Null);
            return;
        }
    };
    let calls = rng.range(2, 4);
    let mut accepted: Vec<(usize, usize)> = Vec::new();
    let mut script: Vec<String> = Vec::new();
    for c in 0..calls {
        // bias the script towards the interesting collisions
        let (a, b) = match (c, rng.range(0, 4)) {
            (0, _) | (_, 0) => *rng.pick(&cands),
            (_, 1) if !accepted.is_empty() => {
                // same target as an earlier connection, other source
                let (_, t) = *rng.pick(&accepted);
                let opts: Vec<(usize, usize)> = cands.iter().cloned().filter(|(_, b)| *b == t).collect();
                if opts.is_empty() {
                    *rng.pick(&cands)
                } else {
                    *rng.pick(&opts)
                }
            }
            (_, 2) if !accepted.is_empty() => {
                // chain: an earlier target becomes the source
                let (_, t) = *rng.pick(&accepted);
                let opts: Vec<(usize, usize)> = cands.iter().cloned().filter(|(a, b)| *a == t && *b != t).collect();
                if opts.is_empty() {
                    *rng.pick(&cands)
                } else {
                    *rng.pick(&opts)
                }
            }
            (_, 3) if !accepted.is_empty() => {
                // same source, other target
                let (s, _) = *rng.pick(&accepted);
                let opts: Vec<(usize, usize)> = cands.iter().cloned().filter(|(a, _)| *a == s).collect();
                if opts.is_empty() {
                    *rng.pick(&cands)
                } else {
                    *rng.pick(&opts)
                }
            }
            _ => *rng.pick(&cands),
        };
        let distinct = accepted.iter().all(|(s, t)| *s != a && *t != b);
        let r = guard(|| net.connect(a, b));
        script.push(format!("connect({},{}) -> {}", a, b, if r.is_ok() { "accepted" } else { "rejected" }));
        match r {
            Ok(()) => accepted.push((a, b)),
            Err(m) => {
                if distinct {
                    let chained = accepted.iter().any(|(_, t)| *t == a) || accepted.iter().any(|(s, _)| *s == b);
                    out.viol(
                        if chained { "skip:bookkeeping:distinct-rejected:chain" } else { "skip:bookkeeping:distinct-rejected" },
                        format!("{}: after {:?}, connect({},{}) has a new source and a new target but was rejected: {}", cfg.describe(), accepted, a, b, short(&m, 120)),
                        J::obj().set("network", J::s(&cfg.describe())).set("script", J::strs(&script)),
                    );
                }
            }
        }
        out.count("connect_calls", 1);
        // every accepted connection must (still) be in effect
        let mut c2 = cfg.clone();
        c2.skips = accepted.clone();
        let m_acc = predict_matches(&net, &c2, &params, &x, false);
        let m_raw = predict_matches(&net, &c2, &params, &x, true);
        match (m_acc, m_raw) {
            (Err(m), _) | (_, Err(m)) => {
                out.viol("skip:bookkeeping:forward-panic", format!("{} with {:?}: predict panicked: {}", cfg.describe(), accepted, short(&m, 160)), J::strs(&script));
                return;
            }
            (Ok(None), _) | (_, Ok(None)) => out.count("states_where_all_accepted_connections_are_in_effect", 1),
            (Ok(Some(_)), Ok(Some((i, got, exp, _)))) => {
                // which accepted connection is missing?
                let mut lost: Option<(usize, usize)> = None;
                for k in 0..accepted.len() {
                    let mut c3 = cfg.clone();
                    c3.skips = accepted.iter().enumerate().filter(|(j, _)| *j != k).map(|(_, p)| *p).collect();
                    if let (Ok(None), _) | (_, Ok(None)) = (predict_matches(&net, &c3, &params, &x, false), predict_matches(&net, &c3, &params, &x, true)) {
                        lost = Some(accepted[k]);
                    }
                }
                let sig = if lost.is_some() { "skip:bookkeeping:silently-discarded" } else { "skip:bookkeeping:value" };
                out.viol(
                    sig,
                    format!("{}: accepted connections {:?} but the prediction (output[{}] = {:e}, expected {:e}) {}", cfg.describe(), accepted, i, got, exp, match lost {
                        Some(p) => format!("equals the network WITHOUT connection {:?}: it was silently discarded", p),
                        None => "matches no subset-by-one of them".to_string(),
                    }),
                    J::obj().set("network", J::s(&cfg.describe())).set("script", J::strs(&script)).set("parameters", params_json(&params)).set("input", J::f32s(&x)),
                );
                return;
            }
        }
    }
    out.key = format!("{} | {}", cfg.describe(), script.join("; "));
    if idx < 3 {
        out.sample = Some(J::obj().set("network", J::s(&cfg.describe())).set("script", J::strs(&script)));
    }
}

fn gradient_case(rng: &mut Rng, idx: u64, out: &mut Out) {
    let kind = (idx % 4) as usize;
    let acts = [Act::Tanh, Act::Sigmoid, Act::Linear, Act::Leaky];
    let depth = rng.range(2, 4);
    // every other network may contain max-pool layers (as sources, targets and chain links)
    let mut cfg = chain(rng, kind, depth, &acts, (idx / 4) % 2 == 1, true);
    if cfg.layers.iter().any(|l| matches!(l, LCfg::Pool { .. })) {
        out.count("gradient_networks_with_max_pool_layers", 1);
    }
    if idx % 7 == 3 {
        wrap_blocks(rng, &mut cfg, 0.4);
    }
    cfg.skipacc = Acc::Add;
    cfg.keep_default_accumulations = true;
    cfg.loopacc = ACCS[((idx / 3) % 5) as usize];
    let cands = candidates(&cfg);
    let mut skips: Vec<(usize, usize)> = Vec::new();
    for _ in 0..rng.range(1, 3) {
        if skips.len() == 2 {
            break;
        }
        let (a, b) = if skips.len() == 1 && rng.chance(0.4) {
            // prefer a second connection from the same source
            let same: Vec<(usize, usize)> = cands.iter().cloned().filter(|(x, _)| *x == skips[0].0).collect();
            *rng.pick(&same)
        } else {
            *rng.pick(&cands)
        };
        // targets distinct; connections may share their source, form chains (a target that is
        // the source of another connection) and include a connection from a layer to itself
        if skips.iter().all(|(_, y)| *y != b) {
            skips.push((a, b));
        }
    }
    let chained = skips.iter().any(|(a, _)| skips.iter().any(|(a2, b2)| b2 == a && !(a2 == a && b2 == a))) || (skips.len() == 2 && skips.iter().any(|(a, b)| a == b) && skips[0].0 == skips[1].0);
    if chained {
        out.count("gradient_cases_with_a_chain_or_self+shared_source", 1);
    }
    if skips.len() == 2 && skips[0].0 == skips[1].0 {
        out.count("gradient_cases_with_a_shared_source", 1);
    }
    cfg.skips = skips.clone();
    out.key = format!("grad {}", cfg.describe());
    for (a, b) in skips.iter() {
        out.cover("gradient_index_pairs", format!("{}->{} of {} {}", a, b, cfg.layers.len(), rep_kind(&cfg, *a, *b)));
    }
    let mut found = None;
    for _ in 0..25 {
        let params = gen_params(&cfg, rng, -1.0, 1.0).unwrap();
        let x = random_input(rng, cfg.input);
        let r: RNet<f64> = RNet::plain(&cfg, &params);
        let tr = r.forward(&Val::from_f32(cfg.input, &x));
        if well_conditioned(&cfg.layers, &tr) {
            found = Some((params, x, tr.output().values()));
            break;
        }
    }
    let (params, x, pred) = match found {
        Some(f) => f,
        None => {
            out.nontrivial = false;
            return;
        }
    };
    let target: Vec<f32> = pred.iter().map(|p| *p as f32 + rng.f32_in(0.2, 1.0) * if rng.bool() { 1.0 } else { -1.0 }).collect();
    let tf: Vec<f64> = target.iter().map(|v| *v as f64).collect();
    // every fifth case adds its last connection only after the network object has already run a
    // forward and a backward pass (connect() on a used network must take effect everywhere)
    let late = idx % 5 == 2 && !skips.is_empty();
    let xin = tensor_of(cfg.input, &x);
    let tt = Tensor::single(target.clone());
    let built = if late {
        let mut c0 = cfg.clone();
        let (la, lb) = c0.skips.pop().unwrap();
        build(&c0, Some(&params)).and_then(|mut n| {
            guard(|| {
                let (pre, post, maxp, fbs) = n.forward(&xin);
                let (_, g) = neurons::objective::Function::create(lib_obj(Obj::MSE), None).loss(post.last().unwrap(), &tt);
                let _ = n.verif_backward(g, &pre, &post, &maxp, fbs);
                n.connect(la, lb);
            })?;
            Ok(n)
        })
    } else {
        build(&cfg, Some(&params))
    };
    if late {
        out.count("gradient_cases_whose_last_connection_is_added_after_a_backward_pass", 1);
    }
    let net = match built {
        Ok(n) => n,
        Err(m) => {
            out.viol("skip:gradient:create-panic", format!("{}: {}", cfg.describe(), short(&m, 160)), J::Null);
            return;
        }
    };
    let lib = guard(|| {
        let (pre, post, maxp, fbs) = net.forward(&xin);
        let (_, g) = neurons::objective::Function::create(lib_obj(Obj::MSE), None).loss(post.last().unwrap(), &tt);
        net.verif_backward(g, &pre, &post, &maxp, fbs)
    });
    let (wg, bg) = match lib {
        Ok(r) => r,
        Err(m) => {
            out.viol("skip:gradient:backward-panic", format!("backward of {} panicked: {}", cfg.describe(), short(&m, 200)), case_json(&cfg, &params, &x));
            return;
        }
    };
    if std::env::var("NV_DEBUG").is_ok() {
        let r: RNet<f64> = RNet::plain(&cfg, &params);
        let tr = r.forward(&Val::from_f32(cfg.input, &x));
        let (pre, post, _, _) = net.forward(&xin);
        for i in 0..cfg.layers.len() {
            if let Some(st) = &tr.steps[i] {
                eprintln!("layer {} ref pre {:?}\n        lib pre {:?}", i, st.pre.d, flat(&pre[i]));
            }
            eprintln!("layer {} ref out {:?}\n        lib out {:?}", i, tr.outs[i].d, flat(&post[i + 1]));
        }
        eprintln!("target {:?}", target);
    }
    // chained connections: the statement leaves open whether a source that is itself a target
    // contributes its raw or its accumulated input; the gradient must be the derivative of the
    // function the library's own forward pass computes, so the reading is taken from there
    let raw_reading = if chained {
        match (predict_matches(&net, &cfg, &params, &x, false), predict_matches(&net, &cfg, &params, &x, true)) {
            (Ok(None), _) => false,
            (_, Ok(None)) => true,
            _ => {
                out.viol("skip:gradient:forward-matches-neither-reading", format!("{}: the prediction matches neither reading of the chained connections", cfg.describe()), case_json(&cfg, &params, &x));
                return;
            }
        }
    } else {
        false
    };
    let refs = {
        let xin = Val::<D>::from_f32(cfg.input, &x);
        crate::monitors::c01::coords(&cfg, &params)
            .into_iter()
            .map(|co| {
                let mut rn: RNet<D> = RNet::build(&cfg, &params, &mut |l, c, i, v| if (l, c, i) == co { D::var(v as f64) } else { D::c(v as f64) });
                rn.raw_sources = raw_reading;
                (co, obj_loss(Obj::MSE, &rn.forward(&xin).output().d, &tf))
            })
            .collect::<Vec<_>>()
    };
    for (co, d) in refs.iter() {
        out.count("gradient_entries_compared", 1);
        let got = lib_grad_at(&net, &cfg, &wg, &bg, *co);
        if !got.map(|g| grad_ok(g, d)).unwrap_or(false) {
            let is_target = skips.iter().any(|(_, b)| *b == co.0);
            let between = skips.iter().any(|(a, b)| co.0 >= *a && co.0 < *b);
            let shared = skips.len() == 2 && skips[0].0 == skips[1].0;
            let role = if chained { "chain-or-self+shared" } else if is_target { "skip-target" } else if shared { "shared-source" } else if between { "between-source-and-target" } else { "other-layer" };
            out.viol(
                &format!("skip:gradient:{}", role),
                format!("{}: layer {} parameter {}: derivative of the loss of the network WITH the skip = {:e}, library gradient = {:?} (magnitude {:e})", cfg.describe(), co.0, co.2, d.d, got, d.m),
                case_json(&cfg, &params, &x).set("target", J::f32s(&target)),
            );
            break;
        }
    }
    if idx < 3 {
        out.sample = Some(case_json(&cfg, &params, &x));
    }
}

/// Builder-call order: a skip connection and a loop connection declared in either order must be
/// accepted alike and give the same network. The skip target may lie anywhere, also inside the
/// looped range (what such a network computes is not judged here, only that the two orders
/// agree bit for bit and that a valid `connect` is not refused because a loop was declared first).
fn order_case(rng: &mut Rng, idx: u64, out: &mut Out) {
    let kind = (idx % 2) as usize;
    let acts = [Act::Tanh, Act::Sigmoid, Act::Linear, Act::Leaky];
    let depth = rng.range(3, 6);
    let cfg = chain(rng, kind, depth, &acts, false, true);
    let shapes = match cfg.shapes() {
        Ok(s) => s,
        Err(_) => {
            out.nontrivial = false;
            return;
        }
    };
    let n = cfg.layers.len();
    // a loop over 1..3 layers and a skip connection with equal element counts
    let loops: Vec<(usize, usize)> = (0..n).flat_map(|lo| (lo..n.min(lo + 3)).map(move |hi| (lo, hi))).filter(|(lo, hi)| shapes[*lo].0 == shapes[*hi].1).collect();
    let skips: Vec<(usize, usize)> = (0..n).flat_map(|a| (a..n).map(move |b| (a, b))).filter(|(a, b)| shapes[*a].0.count() == shapes[*b].0.count()).collect();
    if loops.is_empty() || skips.is_empty() {
        out.nontrivial = false;
        return;
    }
    let (lo, hi) = *rng.pick(&loops);
    let inside: Vec<(usize, usize)> = skips.iter().cloned().filter(|(_, b)| *b > lo && *b <= hi).collect();
    let (a, b) = if !inside.is_empty() && rng.chance(0.6) { *rng.pick(&inside) } else { *rng.pick(&skips) };
    let (iters, inskips) = (rng.range(1, 2), rng.bool());
    let skipacc = ACCS[((idx / 2) % 5) as usize];
    let loopacc = ACCS[((idx / 10) % 5) as usize];
    let params = gen_params(&cfg, rng, -1.0, 1.0).unwrap();
    let x = varied_input(rng, cfg.input);
    out.key = format!("order {} | skip ({}, {}) {} | loop ({}, {}, {}, {}) {}", cfg.describe(), a, b, skipacc.name(), hi, lo, iters, inskips, loopacc.name());
    out.cover("order_cases_skip_target_position", if b > lo && b <= hi { "inside the looped range" } else if b == lo { "first looped layer" } else if b == hi + 1 { "behind the loop" } else { "elsewhere" }.to_string());
    let make = |loop_first: bool| -> Result<Vec<f32>, String> {
        let mut net = build(&cfg, Some(&params))?;
        guard(|| {
            net.set_accumulation(lib_acc(skipacc), lib_acc(loopacc));
            if loop_first {
                net.loopback(hi, lo, iters, std::sync::Arc::new(|x| 1.0 / x), inskips);
                net.connect(a, b);
            } else {
                net.connect(a, b);
                net.loopback(hi, lo, iters, std::sync::Arc::new(|x| 1.0 / x), inskips);
            }
        })
        .map_err(|m| format!("declaring the connections panicked: {}", m))?;
        guard(|| flat(&net.predict(&tensor_of(cfg.input, &x)))).map_err(|m| format!("predict panicked: {}", m))
    };
    let (first, second) = (make(false), make(true));
    out.count("builder_orders_compared", 1);
    match (first, second) {
        (Ok(p), Ok(q)) => {
            if !bits_eq(&p, &q) {
                out.viol("skip:order:results-differ", format!("{}: connect-then-loopback and loopback-then-connect give different predictions", out.key), J::Null);
            }
        }
        (Err(_), Err(_)) => {
            out.count("builder_orders_refused_alike", 1);
        }
        (Ok(_), Err(m)) => out.viol("skip:order:refused-after-loopback", format!("{}: accepted when connect() comes first, but with the loop declared first: {}", out.key, short(&m, 200)), J::Null),
        (Err(m), Ok(_)) => out.viol("skip:order:refused-before-loopback", format!("{}: accepted when loopback() comes first, but with the connection declared first: {}", out.key, short(&m, 200)), J::Null),
    }
}

/// Connections declared WHILE the network is being built: some layers, a connection, more
/// layers, a connection into one of the new layers. The result must be the network one gets by
/// adding all layers first and declaring both connections afterwards (bit for bit), and the
/// reference with both connections must be met.
fn interleaved_case(rng: &mut Rng, idx: u64, out: &mut Out) {
    use neurons::network::Network;
    let kind = (idx % 3) as usize;
    let acts = [Act::Tanh, Act::Sigmoid, Act::Linear, Act::Leaky];
    let depth = rng.range(4, 7);
    let mut cfg = chain(rng, kind, depth, &acts, false, true);
    let shapes = match cfg.shapes() {
        Ok(s) => s,
        Err(_) => {
            out.nontrivial = false;
            return;
        }
    };
    let n = cfg.layers.len();
    let pairs: Vec<(usize, usize)> = (0..n).flat_map(|a| (a..n).map(move |b| (a, b))).filter(|(a, b)| shapes[*a].0.count() == shapes[*b].0.count()).collect();
    // first connection among the first `cut` layers, second one into a later layer
    let cut = rng.range(2, n - 1);
    let early: Vec<(usize, usize)> = pairs.iter().cloned().filter(|(_, b)| *b < cut).collect();
    let late: Vec<(usize, usize)> = pairs.iter().cloned().filter(|(_, b)| *b >= cut).collect();
    if early.is_empty() || late.is_empty() {
        out.nontrivial = false;
        return;
    }
    let first = *rng.pick(&early);
    let cands: Vec<(usize, usize)> = late.iter().cloned().filter(|(a, b)| *b != first.1 && *a != first.0).collect();
    if cands.is_empty() {
        out.nontrivial = false;
        return;
    }
    let second = *rng.pick(&cands);
    cfg.skips = vec![first, second];
    cfg.skipacc = ACCS[((idx / 3) % 5) as usize];
    cfg.keep_default_accumulations = true;
    let params = gen_params(&cfg, rng, -1.0, 1.0).unwrap();
    let x = varied_input(rng, cfg.input);
    out.key = format!("interleaved {} | {} layers, connect{:?}, {} more layers, connect{:?}", cfg.describe(), cut, first, n - cut, second);
    let interleaved = guard(|| {
        let mut net = Network::new(lib_shape(cfg.input));
        net.set_accumulation(lib_acc(cfg.skipacc), lib_acc(cfg.loopacc));
        for l in cfg.layers[..cut].iter() {
            add_layer(&mut net, l);
        }
        net.connect(first.0, first.1);
        for l in cfg.layers[cut..].iter() {
            add_layer(&mut net, l);
        }
        net.connect(second.0, second.1);
        set_params(&mut net, &params);
        flat(&net.predict(&tensor_of(cfg.input, &x)))
    });
    let standard = build(&cfg, Some(&params)).and_then(|net| guard(|| flat(&net.predict(&tensor_of(cfg.input, &x)))));
    out.count("networks_built_with_interleaved_connect_calls", 1);
    match (interleaved, standard) {
        (Ok(p), Ok(q)) => {
            if !bits_eq(&p, &q) {
                out.viol("skip:interleaved:results-differ", format!("{}: declaring the connections while building gives a different prediction than declaring them after all layers", out.key), case_json(&cfg, &params, &x));
            }
        }
        (Err(m), Ok(_)) => out.viol("skip:interleaved:refused", format!("{}: {}", out.key, short(&m, 200)), case_json(&cfg, &params, &x)),
        (Ok(_), Err(m)) => out.viol("skip:rejected:valid-connection", format!("{}: the standard order was refused: {}", out.key, short(&m, 200)), case_json(&cfg, &params, &x)),
        (Err(_), Err(_)) => {
            out.count("interleaved_cases_refused_in_both_orders", 1);
        }
    }
}

impl Monitor for C16 {
    fn id(&self) -> &'static str {
        "C16"
    }
    fn gens(&self, tier: Tier) -> Vec<(&'static str, u64)> {
        vec![("values", tier.pick(90_000, 1_800_000)), ("bookkeeping", tier.pick(45_000, 900_000)), ("gradients", tier.pick(22_500, 450_000)), ("orders", tier.pick(20_000, 400_000)), ("interleaved", tier.pick(15_000, 300_000))]
    }
    fn rule(&self) -> &'static str {
        "networks of depth 2..7 in which every layer input has the same element count (flat dense chains, spatial chains of 'same' convolutions / deconvolutions / 1x1 pools / deconvolution+pool pairs, mixed flat<->spatial chains on r*r elements, spatial chains whose shapes differ at equal element count via stride-2 convolutions / deconvolutions; every seventh network has some layers wrapped into feedback blocks so that blocks occur as sources and targets). values: 1..2 connections drawn from ALL index pairs a <= b with equal counts (sources and targets disjoint), accumulation = case index mod 5; predict vs reference network where layer b processes combine(ordinary input, input fed to a) (reshaped row-major), within the running f32 bound; every fourth case adds a loop connection (1..2 iterations, any loop accumulation, with and without input skips) over a range no connection starts in, preferably ending right in front of a skip target, so that the target combines the looped output with its source. bookkeeping: scripts of 2..4 connect() calls biased towards same-target, same-source and chained pairs; after every call the prediction must equal the reference containing exactly the accepted connections (either reading of 'input fed to a' for chains), a call with a new source and a new target must be accepted, a discarded earlier connection is identified by re-evaluating the reference without it. gradients: additive accumulation (every fifth case adds its last connection only after the network object has run a forward and a backward pass), hooked backward vs dual-number derivative of the MSE of the reference WITH the skips. interleaved: some layers, connect(), more layers, connect() into one of the new layers - must predict bit-identically to the network whose connections are declared after all layers. orders: a chain with one skip connection (target anywhere, also inside a looped range) and one loop connection, declared as connect-then-loopback and as loopback-then-connect: both orders must be accepted alike and predict bit-identically. The loop accumulation (which concerns nothing in the networks without loops) is set to each of the five values in turn. Distinct = distinct (network, connections | script) descriptors."
    }
    fn assumptions(&self) -> Vec<&'static str> {
        vec!["chained connections (a target that is also a source): both the raw and the accumulated reading of 'the input that was fed to layer a' are accepted", "multiplicative/subtractive/mean/overwrite accumulations are only checked on values (the property claims gradients for additive accumulation only)"]
    }
    fn run(&self, gen: &str, seed: u64, idx: u64, _tier: Tier) -> Out {
        let mut rng = Rng::stream(seed, gen, idx);
        let mut out = Out::new(String::new());
        match gen {
            "values" => values_case(&mut rng, idx, &mut out),
            "bookkeeping" => bookkeeping_case(&mut rng, idx, &mut out),
            "gradients" => gradient_case(&mut rng, idx, &mut out),
            "orders" => order_case(&mut rng, idx, &mut out),
            "interleaved" => interleaved_case(&mut rng, idx, &mut out),
            _ => panic!("unknown generator {}", gen),
        }
        out
    }
    fn finish(&self, _tier: Tier, _seed: u64, agg: &mut Agg) {
        agg.require(agg.set_size("accumulation_x_representation") >= 18, format!("only {} accumulation x representation combinations", agg.set_size("accumulation_x_representation")));
        agg.require(agg.count("connect_calls") >= 5000, "too few connect calls".into());
        agg.require(agg.count("gradient_entries_compared") >= 10_000, "too few gradient entries".into());
    }
}
