//! SplitMix64 streams. Case `i` of generator `g` under seed `s` uses stream (s, g, i), so every
//! case is regenerable from its coordinates alone.

#[derive(Clone)]
pub struct Rng(u64);

pub fn fnv(s: &str) -> u64 {
    let mut h: u64 = 0xcbf29ce484222325;
    for b in s.bytes() {
        h ^= b as u64;
        h = h.wrapping_mul(0x100000001b3);
    }
    h
}

impl Rng {
    pub fn new(seed: u64) -> Rng {
        Rng(seed)
    }
    pub fn stream(seed: u64, gen: &str, idx: u64) -> Rng {
        let mut r = Rng(seed ^ 0x9E3779B97F4A7C15);
        let a = r.u64();
        let mut r = Rng(a ^ fnv(gen));
        let b = r.u64();
        let mut r = Rng(b ^ idx.wrapping_mul(0xD6E8FEB86659FD93));
        r.u64();
        r
    }
    pub fn u64(&mut self) -> u64 {
        self.0 = self.0.wrapping_add(0x9E3779B97F4A7C15);
        let mut z = self.0;
        z = (z ^ (z >> 30)).wrapping_mul(0xBF58476D1CE4E5B9);
        z = (z ^ (z >> 27)).wrapping_mul(0x94D049BB133111EB);
        z ^ (z >> 31)
    }
    /// Uniform in [lo, hi] (inclusive).
    pub fn range(&mut self, lo: usize, hi: usize) -> usize {
        debug_assert!(lo <= hi);
        lo + (self.u64() % (hi - lo + 1) as u64) as usize
    }
    pub fn bool(&mut self) -> bool {
        self.u64() & 1 == 1
    }
    pub fn chance(&mut self, p: f64) -> bool {
        self.unit() < p
    }
    /// Uniform in [0, 1).
    pub fn unit(&mut self) -> f64 {
        (self.u64() >> 11) as f64 / (1u64 << 53) as f64
    }
    pub fn f32_in(&mut self, lo: f32, hi: f32) -> f32 {
        (lo as f64 + self.unit() * (hi as f64 - lo as f64)) as f32
    }
    pub fn f64_in(&mut self, lo: f64, hi: f64) -> f64 {
        lo + self.unit() * (hi - lo)
    }
    /// Log-uniform in [lo, hi], both positive.
    pub fn log_in(&mut self, lo: f64, hi: f64) -> f64 {
        (lo.ln() + self.unit() * (hi.ln() - lo.ln())).exp()
    }
    pub fn normal(&mut self) -> f64 {
        let u1 = (self.unit()).max(1e-300);
        let u2 = self.unit();
        (-2.0 * u1.ln()).sqrt() * (2.0 * std::f64::consts::PI * u2).cos()
    }
    pub fn pick<'a, T>(&mut self, xs: &'a [T]) -> &'a T {
        &xs[self.range(0, xs.len() - 1)]
    }
    /// `n` values in [lo, hi] with pairwise distance >= (hi-lo)/(8n) — repetition-free data, so
    /// transpositions are visible.
    pub fn distinct_f32(&mut self, n: usize, lo: f32, hi: f32) -> Vec<f32> {
        let mut out: Vec<f32> = Vec::with_capacity(n);
        let gap = (hi - lo) / (8.0 * n.max(1) as f32);
        let mut tries = 0;
        while out.len() < n {
            let v = self.f32_in(lo, hi);
            tries += 1;
            if tries > 64 * n + 1000 || out.iter().all(|o| (o - v).abs() >= gap) {
                out.push(v);
            }
        }
        out
    }
    pub fn shuffle<T>(&mut self, xs: &mut [T]) {
        for i in (1..xs.len()).rev() {
            let j = self.range(0, i);
            xs.swap(i, j);
        }
    }
}
