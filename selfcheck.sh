#!/bin/bash
# Runs every registered check (tier $1, default quick) at several seeds; prints non-held results.
# IDS="C01 C04" restricts the run to some checks (soak runs of the tolerance-based monitors).
cd "$(dirname "$0")"
TIER="${1:-quick}"; shift
SEEDS="${@:-1 2 3 7 1234}"
for id in ${IDS:-$(cat BUILT)}; do
  for s in $SEEDS; do
    out=$(VERIF_SEED=$s ./check $id $TIER 2>&1); code=$?
    echo "$id seed=$s exit=$code $(echo "$out" | grep SUMMARY | sed 's/.*evaluations=/evaluations=/')"
    if [ $code -ne 0 ]; then echo "$out" | grep -v SUMMARY | head -12; fi
  done
done
