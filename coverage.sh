#!/bin/bash
# Reach audit (not a registered check): which lines of /repo/src do the monitors' quick
# workloads execute?  Runtime monitoring says nothing about code the workload never drives,
# so this lists what is left undriven.  Builds the harness with -Cinstrument-coverage into a
# scratch directory under /tmp (removed at the end), runs every monitor's quick tier with its
# own profile, merges them and writes
#     logs/coverage_summary.txt   per-file line/region coverage of /repo/src
#     logs/coverage_missed.txt    every line of /repo/src that no monitor executed
# The instrumented binary is 30-100x slower (contended counters), so every 31st case (a prime: the generators walk grids by index) of the
# larger generators is run (NV_SAMPLE); the figures are therefore a lower bound of the reach.
# usage: ./coverage.sh [tier] [IDs...]
set -u
cd "$(dirname "$0")"
V="$(pwd)"
TIER="${1:-quick}"; shift || true
IDS="${*:-$(cat BUILT)}"
export CARGO_NET_OFFLINE=true
S=/tmp/nv_cov
rm -rf "$S"; mkdir -p "$S/verif/evidence" "$S/verif/replays" "$S/prof"
cp known_findings.json "$S/verif/"
BIN="$(dirname "$(rustup which --toolchain nightly rustc)")/../lib/rustlib/x86_64-unknown-linux-gnu/bin"
cp /repo/Cargo.lock harness/Cargo.lock
( cd harness && RUSTFLAGS="-Cinstrument-coverage" cargo +nightly build --release --offline --target-dir "$S/target" ) > "$S/build.log" 2>&1 \
  || { echo "coverage build failed"; tail -20 "$S/build.log"; exit 2; }
for id in $IDS; do
  NV_SAMPLE="${NV_SAMPLE:-31}" VERIF_DIR="$S/verif" LLVM_PROFILE_FILE="$S/prof/$id-%p-%m.profraw" \
    timeout 3600 "$S/target/release/nv" "$id" "$TIER" --result "$S/$id.result" > "$S/$id.log" 2>&1
  echo "$id exit=$? $(tail -n 1 "$S/$id.result" 2>/dev/null | cut -c1-150)"
done
"$BIN/llvm-profdata" merge -sparse "$S"/prof/*.profraw -o "$S/all.profdata" || exit 2
"$BIN/llvm-cov" report "$S/target/release/nv" -instr-profile="$S/all.profdata" \
   $(ls /repo/src/*.rs) > logs/coverage_summary.txt 2>/dev/null
"$BIN/llvm-cov" show "$S/target/release/nv" -instr-profile="$S/all.profdata" \
   -show-line-counts $(ls /repo/src/*.rs) 2>/dev/null \
 | awk '/^\/repo\/src\/.*:$/ {f=$0} /^ *[0-9]+\| *0\|/ {print f " " $0}' > logs/coverage_missed.txt
cat logs/coverage_summary.txt
echo "missed lines: $(wc -l < logs/coverage_missed.txt) (logs/coverage_missed.txt)"
rm -rf "$S"
